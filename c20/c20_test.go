//go:build verif && linux
// +build verif,linux

// C20 - a port scan is reported once, listing exactly the ports probed.
//
// Scan cases are sequences of bursts ("phases") of probes (TCP SYN with and without
// options, UDP to undecoded ports with empty, 1-byte and longer payloads, minimal and
// longer ICMP echo) from 1..4 sources. They are written to the socketpair of hooked
// canaries whose real Start() loop and knock detector run in a child process; many
// independent canaries share the detector ticks of a batch. The next burst of a case is
// sent only after the reports of the previous one are complete and one further tick has
// passed, so every burst is a detector period of its own and is judged on the events
// that arrive in its window. In some cases the event channel is slow for one source's
// reports and a burst larger than the knock queue arrives from another source while such a
// report is being delivered. uniqueset_test.go enumerates the grouping container.
package c20

import (
	"fmt"
	"sort"
	"strings"
	"sync"
	"sync/atomic"
	"testing"
	"time"

	"pgregory.net/rapid"

	cl "verif/canarylab"
	"verif/vlib"
)

const prop = "C20"

func TestMain(m *testing.M) { cl.ChildIfRequested(); vlib.Main(m, prop) }

type probe struct {
	Src     int    `json:"src"`
	Proto   string `json:"proto"` // tcp | udp | icmp
	Port    uint16 `json:"port,omitempty"`
	Payload int    `json:"payload,omitempty"` // udp / icmp payload bytes (0: header only)
	NoOpts  bool   `json:"no_opts,omitempty"` // tcp: SYN without options
	// Sport: the source port the scanner sends from (tcp / udp; icmp: echo identifier and
	// sequence number). 0: a fresh ephemeral port per probe.
	Sport uint16 `json:"sport,omitempty"`
	// Trailer: link-layer bytes behind the IP datagram. -1: the frame is padded to the
	// Ethernet minimum of 60 bytes as the sending station does, k > 0: k trailer bytes,
	// 0: the frame ends with the IP datagram.
	Trailer int `json:"trailer,omitempty"`
}

type phase struct {
	Probes []probe `json:"probes"`
	// OnHold is sent when the slow event channel announces that it is delivering a report
	// of the Hold source (the detector is then busy inside Send)
	OnHold []probe `json:"on_hold,omitempty"`
	// SpanMs > 0: a scan that takes its time - the first Head probes leave back to back,
	// the others follow evenly spread over SpanMs (gaps far below the detector's 5 s quiet
	// period, so it is still one burst), written by a goroutine of the child
	Head   int `json:"head,omitempty"`
	SpanMs int `json:"span_ms,omitempty"`
}

// maxGapMs: a paced burst counts only when no two consecutive probes were really written
// more than this apart (half the detector's quiet period); otherwise the machine stalled
// the sender and the case is dropped as inconclusive.
const maxGapMs = 2500

// delays returns the pause before each probe of a paced phase.
func (p phase) delays() []int {
	n := len(p.Probes)
	head := p.Head
	if head < 0 {
		head = 0
	}
	if head > n {
		head = n
	}
	d := make([]int, n)
	if tail := n - head; tail > 0 {
		gap := p.SpanMs / tail
		if gap > 1500 {
			gap = 1500
		}
		for i := head; i < n; i++ {
			d[i] = gap
		}
	}
	return d
}

// maxGroupGapMs bounds, by construction, the pause between two consecutive probes of one
// (source, protocol) group inside a paced burst; with less than maxExcessMs of delay
// added by the machine every group's probes stay well inside one quiet period.
const (
	maxGroupGapMs = 2000
	maxExcessMs   = 2000
)

// groupGapMs returns the largest planned pause between consecutive probes of one
// (source, protocol) group.
func (p phase) groupGapMs() int {
	d := p.delays()
	last := map[string]int{}
	t, worst := 0, 0
	for i, pr := range p.Probes {
		t += d[i]
		g := fmt.Sprintf("%d/%s", pr.Src, pr.Proto)
		if at, ok := last[g]; ok && t-at > worst {
			worst = t - at
		}
		last[g] = t
	}
	return worst
}

var inconclusivePaced int64

// lateReread counts port-scan events whose fields were read again after the reports of
// their burst were complete, lateAfterReport those of them that were read again after the
// same detector had made at least one further report (generator health).
var lateReread, lateAfterReport int64

// reread compares what the retained port-scan events of one canary say now with what
// they said when they were delivered. Event channels hand events to pushers that queue
// them and serialise them later, so an event must list the ports its source probed
// whenever it is read, not only at the moment of Send. marks[w] is the position of the
// first event of burst w's window.
func reread(l cl.Local, c scanCase, k *cl.Canary, marks []int) (error, error) {
	late, err := k.Late()
	if err != nil {
		return nil, err
	}
	evs := k.Events()
	idx := make([]int, 0, len(late))
	for i := range late {
		idx = append(idx, i)
	}
	sort.Ints(idx)
	last := -1
	if len(idx) > 0 {
		last = idx[len(idx)-1]
	}
	for _, i := range idx {
		if i >= len(evs) {
			return nil, fmt.Errorf("the child retained event %d, the harness received %d events", i, len(evs))
		}
		then, now := evs[i], late[i]
		if then.Str("category") != "portscan" {
			return nil, fmt.Errorf("retained event %d is a %q event on the harness side", i, then.Str("category"))
		}
		atomic.AddInt64(&lateReread, 1)
		if i < last {
			atomic.AddInt64(&lateAfterReport, 1)
		}
		w := 0
		for w+1 < len(marks) && marks[w+1] <= i {
			w++
		}
		src := then.Str("source-ip")
		var want []string
		if w < len(c.Phases) {
			for p := range c.Phases[w].expected()[src] {
				want = append(want, p)
			}
			sort.Strings(want)
		}
		later := 0
		for _, j := range idx {
			if j > i {
				later++
			}
		}
		for _, f := range []string{"source-ip", "destination-ip"} {
			if then.Str(f) != now.Str(f) {
				return fmt.Errorf("burst %d of %d: the port-scan event said %s=%q when it was delivered and says %q when read after the reports of the burst were complete (%d later port-scan event(s) from the same listener)",
					w+1, len(c.Phases), f, then.Str(f), now.Str(f), later), nil
			}
		}
		p0, ok0 := then.Strings("portscan.ports")
		p1, ok1 := now.Strings("portscan.ports")
		if !ok0 {
			continue // malformed at delivery: the burst's own verdict
		}
		if !ok1 || strings.Join(p0, ",") != strings.Join(p1, ",") {
			return fmt.Errorf("burst %d of %d: source %s probed exactly %s; its port-scan event listed %s when it was delivered to the event channel and lists %s when read after the reports of the burst were complete (the listener has sent %d later port-scan event(s); a pusher that queues events and serialises them afterwards reports this list)%s",
				w+1, len(c.Phases), src, short(want), short(p0), short(p1), later, c.wire(w)), nil
		}
	}
	return nil, nil
}

type scanCase struct {
	Phases []phase `json:"phases"`
	Hold   int     `json:"hold,omitempty"` // 1-based source whose port-scan events the channel delivers slowly
	HoldMs int     `json:"hold_ms,omitempty"`
}

func (c scanCase) probes() int {
	n := 0
	for _, p := range c.Phases {
		n += len(p.Probes) + len(p.OnHold)
	}
	return n
}

// sources 0, 2 and 3 arrive through the same router (one hardware address), source 1 is
// a station of its own: groups must be kept apart by address, not only by hardware address
var sources = []cl.Peer{
	{IP: cl.IP4{10, 20, 0, 1}, MAC: cl.MAC{0x02, 0xd0, 0, 0, 0, 1}},
	{IP: cl.IP4{10, 20, 0, 2}, MAC: cl.MAC{0x02, 0xd0, 0, 0, 0, 2}},
	{IP: cl.IP4{198, 51, 100, 9}, MAC: cl.MAC{0x02, 0xd0, 0, 0, 0, 1}},
	{IP: cl.IP4{10, 20, 0, 4}, MAC: cl.MAC{0x02, 0xd0, 0, 0, 0, 1}},
}

var (
	local    cl.Local
	localErr error
	once     sync.Once
)

func env(t testing.TB) cl.Local {
	once.Do(func() { local, localErr = cl.FindLocal() })
	if localErr != nil {
		t.Fatalf("infra: %v", localErr)
	}
	return local
}

func config(l cl.Local, c scanCase) cl.Config {
	// the channel keeps the port-scan events as delivered; runBatch reads them again later
	cfg := cl.Config{Interfaces: []string{l.Name}, Start: true, Retain: "portscan"}
	for _, p := range sources {
		cfg.ARP = append(cfg.ARP, cl.ARPEntry{IP: p.IP.String(), MAC: p.MAC.String(), Interface: l.Name})
	}
	if c.Hold > 0 && c.Hold <= len(sources) {
		cfg.HoldSource = sources[c.Hold-1].IP.String()
		cfg.HoldMs = c.HoldMs
	}
	return cfg
}

var frameSeq uint32

func frames(l cl.Local, probes []probe) [][]byte {
	out := make([][]byte, 0, len(probes))
	for _, p := range probes {
		frameSeq++
		i := frameSeq
		src := sources[p.Src]
		sport := uint16(30000 + i%30000)
		if p.Sport != 0 {
			sport = p.Sport
		}
		var fr []byte
		switch p.Proto {
		case "tcp":
			f := cl.TCPFields{Sport: sport, Dport: p.Port, Seq: 1000 * i, DataOff: -1, Flags: cl.SYN}
			if !p.NoOpts {
				f.Options = []byte{2, 4, 5, 0xb4}
			}
			fr = l.TCPFrame(src, f)
		case "udp":
			fr = l.UDPFrame(src, sport, p.Port, []byte("scan-payload-bytes")[:p.Payload%19])
		default:
			id, seq := uint16(77), uint16(i)
			if p.Sport != 0 {
				id, seq = p.Sport, p.Sport
			}
			fr = l.ICMPFrame(src, id, seq, []byte("abcdefghijklmnopqrstuvwxyz012345")[:p.Payload%33])
		}
		out = append(out, cl.Trailer(fr, p.Trailer, byte(i)))
	}
	return out
}

// expected returns, per source address, the set of distinct protocol/port pairs probed in
// the phase.
func (p phase) expected() map[string]map[string]bool {
	out := map[string]map[string]bool{}
	for _, pr := range append(append([]probe(nil), p.Probes...), p.OnHold...) {
		ip := sources[pr.Src].IP.String()
		if out[ip] == nil {
			out[ip] = map[string]bool{}
		}
		if pr.Proto == "icmp" {
			out[ip]["icmp"] = true
		} else {
			out[ip][fmt.Sprintf("%s/%d", pr.Proto, pr.Port)] = true
		}
	}
	return out
}

type scanReport struct {
	src   string
	ports []string
}

func scans(l cl.Local, evs []cl.Ev) (out []scanReport, malformed string) {
	for _, e := range evs {
		if e.Str("category") != "portscan" {
			continue
		}
		ports, ok := e.Strings("portscan.ports")
		if !ok {
			return nil, fmt.Sprintf("portscan event without a portscan.ports list: %v", e.M)
		}
		if e.Str("destination-ip") != l.IP.String() {
			return nil, fmt.Sprintf("portscan event for destination %q, the probes went to %s", e.Str("destination-ip"), l.IP)
		}
		out = append(out, scanReport{src: e.Str("source-ip"), ports: ports})
	}
	return out, ""
}

// complete: every expected pair of every source has been reported at least once.
func complete(want map[string]map[string]bool, got []scanReport) bool {
	have := map[string]map[string]bool{}
	for _, g := range got {
		if have[g.src] == nil {
			have[g.src] = map[string]bool{}
		}
		for _, p := range g.ports {
			have[g.src][p] = true
		}
	}
	for src, ps := range want {
		for p := range ps {
			if !have[src][p] {
				return false
			}
		}
	}
	return true
}

func short(l []string) string {
	if len(l) > 12 {
		return fmt.Sprintf("%v ... (%d)", l[:12], len(l))
	}
	return fmt.Sprint(l)
}

// judge applies the oracle to the reports that arrived in the window of one burst.
func judge(want map[string]map[string]bool, got []scanReport) error {
	bySrc := map[string][]string{}
	nev := map[string]int{}
	for _, g := range got {
		if _, ok := want[g.src]; !ok {
			return fmt.Errorf("port-scan event for source %s, which sent nothing in this burst (ports %s)", g.src, short(g.ports))
		}
		bySrc[g.src] = append(bySrc[g.src], g.ports...)
		nev[g.src]++
	}
	srcs := make([]string, 0, len(want))
	for s := range want {
		srcs = append(srcs, s)
	}
	sort.Strings(srcs)
	for _, src := range srcs {
		ports := bySrc[src]
		seen := map[string]int{}
		for _, p := range ports {
			seen[p]++
		}
		var missing, extra, dup []string
		for p := range want[src] {
			if seen[p] == 0 {
				missing = append(missing, p)
			}
		}
		for p, n := range seen {
			if !want[src][p] {
				extra = append(extra, fmt.Sprintf("%q", p))
			} else if n > 1 {
				dup = append(dup, fmt.Sprintf("%s x%d", p, n))
			}
		}
		sort.Strings(missing)
		sort.Strings(extra)
		sort.Strings(dup)
		if len(missing)+len(extra)+len(dup) > 0 {
			w := make([]string, 0, len(want[src]))
			for p := range want[src] {
				w = append(w, p)
			}
			sort.Strings(w)
			return fmt.Errorf("source %s probed exactly %s; its %d port-scan event(s) list %s: never reported %s, listed more than once %s, not probed %s",
				src, short(w), nev[src], short(ports), short(missing), short(dup), short(extra))
		}
		// exactly once per burst: the listener groups by protocol, so a burst over k
		// protocols may come as k events (accepted); more events than that means the one
		// burst was reported in pieces
		protos := map[string]bool{}
		for p := range want[src] {
			protos[strings.SplitN(p, "/", 2)[0]] = true
		}
		if nev[src] > len(protos) {
			var sizes []string
			for _, g := range got {
				if g.src == src {
					sizes = append(sizes, fmt.Sprintf("%d", len(g.ports)))
				}
			}
			return fmt.Errorf("source %s sent one burst (%d distinct protocol/port pairs over %d protocol(s)) and is reported split over %d port-scan events for one burst, listing %s pairs respectively: none of them lists the set of ports probed, the burst is not reported exactly once",
				src, len(want[src]), len(protos), nev[src], strings.Join(sizes, " + "))
		}
	}
	return nil
}

const (
	tick        = 5 * time.Second
	firstWait   = 32 * time.Second // six detector ticks for the reports to be complete
	settleAfter = tick + 1200*time.Millisecond
)

// wire describes the source ports and the framing of burst ph for a verdict.
func (c scanCase) wire(ph int) string {
	if ph >= len(c.Phases) {
		return ""
	}
	earlier := map[string]bool{}
	for _, p := range c.Phases[:ph] {
		for _, pr := range append(append([]probe(nil), p.Probes...), p.OnHold...) {
			if pr.Sport != 0 {
				earlier[fmt.Sprintf("%d/%s/%d/%d", pr.Src, pr.Proto, pr.Sport, pr.Port)] = true
			}
		}
	}
	var again []string
	seen := map[string]bool{}
	set, padded, trailer, n := 0, 0, 0, 0
	for _, pr := range append(append([]probe(nil), c.Phases[ph].Probes...), c.Phases[ph].OnHold...) {
		n++
		if pr.Sport != 0 {
			set++
			k := fmt.Sprintf("%d/%s/%d/%d", pr.Src, pr.Proto, pr.Sport, pr.Port)
			if earlier[k] && !seen[k] {
				seen[k] = true
				if pr.Proto == "icmp" {
					again = append(again, fmt.Sprintf("%s icmp id %d", sources[pr.Src].IP, pr.Sport))
				} else {
					again = append(again, fmt.Sprintf("%s:%d>%s/%d", sources[pr.Src].IP, pr.Sport, pr.Proto, pr.Port))
				}
			}
		}
		if pr.Trailer < 0 {
			padded++
		} else if pr.Trailer > 0 {
			trailer++
		}
	}
	out := ""
	if set > 0 {
		out += fmt.Sprintf(" [%d of the %d probes leave from a source port the scanner uses every time", set, n)
		if len(again) > 0 {
			sort.Strings(again)
			out += fmt.Sprintf("; same source/destination port pair as in an earlier burst: %s", short(again))
		}
		out += "]"
	}
	if padded+trailer > 0 {
		out += fmt.Sprintf(" [link-layer bytes behind the IP datagram: %d frames padded to the 60-byte Ethernet minimum, %d with other trailers]", padded, trailer)
	}
	return out
}

// runBatch plays the cases on fresh canaries of one child (one canary per case), phase
// by phase, and returns the oracle's first complaint per case.
func runBatch(l cl.Local, cases []scanCase) ([]error, error) {
	ch, err := cl.StartChild()
	if err != nil {
		return nil, err
	}
	defer ch.Kill()
	ks := make([]*cl.Canary, len(cases))
	nph := 0
	for i, c := range cases {
		if ks[i], err = ch.New(config(l, c)); err != nil {
			return nil, err
		}
		if len(c.Phases) > nph {
			nph = len(c.Phases)
		}
	}
	verdicts := make([]error, len(cases))
	pacedCalls := make([]int, len(cases))
	pacedNow := make([]bool, len(cases))
	dropped := make([]bool, len(cases))  // inconclusive: never judged
	windows := make([][]int, len(cases)) // per case: position of the first event of every burst's window
	for ph := 0; ph < nph; ph++ {
		marks := make([]int, len(cases))
		var wg sync.WaitGroup
		var sendErr error
		var sendMu sync.Mutex
		for i, c := range cases {
			marks[i] = len(ks[i].Events())
			windows[i] = append(windows[i], marks[i])
			if ph >= len(c.Phases) {
				continue
			}
			p := c.Phases[ph]
			if len(p.OnHold) > 0 {
				// armed before the probes go out: the burst leaves when the report is being delivered
				wg.Add(1)
				go func(k *cl.Canary, fr [][]byte, n int) {
					defer wg.Done()
					if k.WaitHold(n, firstWait) {
						if err := k.SendMany(fr); err != nil {
							sendMu.Lock()
							sendErr = err
							sendMu.Unlock()
						}
					}
				}(ks[i], frames(l, p.OnHold), ks[i].Holds()+1)
			}
			if p.SpanMs > 0 {
				pacedCalls[i]++
				pacedNow[i] = true
				if err := ks[i].SendPaced(frames(l, p.Probes), p.delays()); err != nil {
					return nil, fmt.Errorf("sending probes: %v (child: %s)", err, ch.Death())
				}
				continue
			}
			if err := ks[i].SendMany(frames(l, p.Probes)); err != nil {
				return nil, fmt.Errorf("sending probes: %v (child: %s)", err, ch.Death())
			}
		}
		if err := ch.Ping(); err != nil {
			return nil, fmt.Errorf("child: %v %s", err, ch.Death())
		}
		// paced bursts: wait until the child has written the last probe; a burst whose
		// probes were not written in time (overloaded machine) is not judged at all
		for i, c := range cases {
			if !pacedNow[i] {
				continue
			}
			pacedNow[i] = false
			acc, ok := ks[i].WaitPaced(pacedCalls[i], time.Duration(c.Phases[ph].SpanMs)*time.Millisecond+90*time.Second)
			if ch.Dead() {
				break
			}
			if !ok {
				return nil, fmt.Errorf("the child did not finish a paced burst of %d ms within 90 s after its end", c.Phases[ph].SpanMs)
			}
			last := acc[len(acc)-1]
			if last.Err != "" || last.Sent != len(c.Phases[ph].Probes) || last.MaxGapMs >= maxGapMs || last.ExcessMs >= maxExcessMs || c.Phases[ph].groupGapMs() > maxGroupGapMs {
				dropped[i] = true
				atomic.AddInt64(&inconclusivePaced, 1)
			}
		}
		start := time.Now()
		pending := map[int]bool{}
		for i, c := range cases {
			if ph < len(c.Phases) {
				pending[i] = true
			}
		}
		// until every case's reports for this burst are complete (re-measured once before
		// a missing report is believed)
		for round := 0; round < 2 && len(pending) > 0; round++ {
			deadline := start.Add(time.Duration(round+1) * firstWait)
			for i, c := range cases {
				if !pending[i] {
					continue
				}
				if dropped[i] {
					delete(pending, i)
					continue
				}
				want := c.Phases[ph].expected()
				left := time.Until(deadline)
				if left < 0 {
					left = 0
				}
				mark := marks[i]
				if ks[i].WaitFor(left, func(evs []cl.Ev) bool {
					got, bad := scans(l, evs[mark:])
					return bad != "" || complete(want, got)
				}) {
					delete(pending, i)
				}
			}
			if ch.Dead() {
				break
			}
		}
		wg.Wait()
		if ch.Dead() {
			return nil, fmt.Errorf("the canary child died during the bursts: %s", ch.Death())
		}
		if sendErr != nil {
			return nil, fmt.Errorf("sending the on-hold burst: %v", sendErr)
		}
		// one more detector tick, so that a repeated report is seen (and the next burst is
		// more than one tick away)
		time.Sleep(settleAfter)
		for i, c := range cases {
			if verdicts[i] != nil || dropped[i] {
				continue
			}
			var want map[string]map[string]bool
			if ph < len(c.Phases) {
				want = c.Phases[ph].expected()
			} else {
				want = map[string]map[string]bool{}
			}
			got, bad := scans(l, ks[i].Events()[marks[i]:])
			var v error
			if bad != "" {
				v = fmt.Errorf("%s", bad)
			} else {
				v = judge(want, got)
			}
			if v != nil {
				waited := ""
				if pending[i] {
					waited = fmt.Sprintf(" (waited %v = %d detector ticks)", time.Since(start).Round(time.Second), int(time.Since(start)/tick))
				}
				hold := ""
				if ph < len(c.Phases) && len(c.Phases[ph].OnHold) > 0 {
					hold = fmt.Sprintf(" [%d of the probes arrived while a report for %s was being delivered to a channel that takes %d ms]", len(c.Phases[ph].OnHold), sources[c.Hold-1].IP, c.HoldMs)
				}
				pace := ""
				if ph < len(c.Phases) && c.Phases[ph].SpanMs > 0 {
					pace = fmt.Sprintf(" [the burst took its time: %d probes back to back, the other %d spread over %d ms, no two more than %d ms apart and no two of one source and protocol more than %d ms]", c.Phases[ph].Head, len(c.Phases[ph].Probes)-c.Phases[ph].Head, c.Phases[ph].SpanMs, maxGapMs, maxGroupGapMs+maxExcessMs)
				}
				verdicts[i] = fmt.Errorf("burst %d of %d: %v%s%s%s%s", ph+1, len(c.Phases), v, waited, hold, pace, c.wire(ph))
			}
		}
		// second reading: the events of this and of all earlier bursts, kept by the channel
		// as delivered, are read again now that every report of the burst has been made
		for i, c := range cases {
			if verdicts[i] != nil || dropped[i] {
				continue
			}
			v, err := reread(l, c, ks[i], windows[i])
			if err != nil {
				return nil, fmt.Errorf("reading the retained events again: %v (child: %s)", err, ch.Death())
			}
			verdicts[i] = v
		}
	}
	return verdicts, nil
}

func classify(c scanCase) (label, fp string) {
	srcs := map[int]bool{}
	protos := map[string]bool{}
	nontrivial := false
	prevGroups := map[string]bool{}
	history := false
	for _, p := range c.Phases {
		seen := map[string]bool{}
		groups := map[string]bool{}
		for _, pr := range append(append([]probe(nil), p.Probes...), p.OnHold...) {
			key := fmt.Sprintf("%d/%s/%d", pr.Src, pr.Proto, pr.Port)
			if pr.Proto == "icmp" {
				key = fmt.Sprintf("%d/icmp", pr.Src)
			}
			if seen[key] {
				nontrivial = true
			}
			seen[key] = true
			g := fmt.Sprintf("%d/%s", pr.Src, pr.Proto)
			groups[g] = true
			if prevGroups[g] {
				history = true
			}
			srcs[pr.Src] = true
			protos[pr.Proto] = true
		}
		if len(groups) >= 3 {
			nontrivial = true
		}
		for g := range groups {
			prevGroups[g] = true
		}
	}
	ps := make([]string, 0, 3)
	for p := range protos {
		ps = append(ps, p)
	}
	sort.Strings(ps)
	label = fmt.Sprintf("scan/bursts=%d/sources=%d/%s", len(c.Phases), len(srcs), strings.Join(ps, "+"))
	if history {
		label += "/same-group-again"
		nontrivial = true
	}
	if c.Hold > 0 {
		label += "/slow-channel"
		nontrivial = true
	}
	for _, p := range c.Phases {
		if p.SpanMs > 0 {
			label += fmt.Sprintf("/paced=%dperiod", p.SpanMs/5000)
			nontrivial = true
			break
		}
	}
	if nontrivial {
		return label, vlib.JSON(c)
	}
	return label, ""
}

var udpPorts = []uint16{7, 69, 500, 1194, 4500, 5353, 7000, 27015, 33434, 65535, 1}
var tcpPorts = []uint16{21, 23, 25, 80, 110, 139, 443, 445, 1433, 3306, 3389, 5900, 6379, 8080, 9200, 65535, 1}

func genProbe(rt *rapid.T, label string, src int, proto string, few int, wide bool, n int) probe {
	p := probe{Src: src, Proto: proto}
	switch proto {
	case "tcp":
		if wide {
			p.Port = uint16(20000 + n)
		} else {
			p.Port = tcpPorts[rapid.IntRange(0, len(tcpPorts)-1).Draw(rt, label+"tp")%(few*3)%len(tcpPorts)]
		}
		p.NoOpts = rapid.Bool().Draw(rt, label+"noopts")
	case "udp":
		if wide {
			p.Port = uint16(20000 + n)
		} else {
			p.Port = udpPorts[rapid.IntRange(0, len(udpPorts)-1).Draw(rt, label+"up")%(few*2)%len(udpPorts)]
		}
		p.Payload = rapid.SampledFrom([]int{0, 0, 1, 4, 18}).Draw(rt, label+"upl")
	default:
		p.Payload = rapid.SampledFrom([]int{0, 0, 1, 16, 32}).Draw(rt, label+"ipl")
	}
	return p
}

var protoSets = [][]string{{"tcp"}, {"udp"}, {"icmp"}, {"tcp", "udp"}, {"tcp", "icmp"}, {"udp", "icmp"}, {"tcp", "udp", "icmp"}, {"tcp", "udp", "icmp"}}

func genCase(rt *rapid.T, label string, nph int) scanCase {
	var c scanCase
	nsrc := rapid.IntRange(1, 4).Draw(rt, label+"sources")
	few := rapid.IntRange(1, 6).Draw(rt, label+"distinct-ports") // small port alphabets force repeats
	// first burst
	n := rapid.SampledFrom([]int{1, 2, 3, 5, 8, 13, 30, 60, 100, 101, 102, 150}).Draw(rt, label+"probes")
	if rapid.Bool().Draw(rt, label+"any") {
		n = rapid.IntRange(1, 150).Draw(rt, label+"n")
	}
	protos := rapid.SampledFrom(protoSets).Draw(rt, label+"protos")
	wide := rapid.IntRange(0, 3).Draw(rt, label+"wide") == 0
	var first phase
	for i := 0; i < n; i++ {
		first.Probes = append(first.Probes, genProbe(rt, label, rapid.IntRange(0, nsrc-1).Draw(rt, label+"src"), rapid.SampledFrom(protos).Draw(rt, label+"proto"), few, wide, i))
	}
	// a slow event channel for one source and a burst larger than the knock queue from
	// another one while that source's report is being delivered
	if nsrc >= 2 && rapid.IntRange(0, 4).Draw(rt, label+"slow") == 0 {
		a := rapid.IntRange(0, nsrc-1).Draw(rt, label+"slow-src")
		b := (a + 1 + rapid.IntRange(0, nsrc-2).Draw(rt, label+"burst-src")) % nsrc
		c.Hold, c.HoldMs = a+1, 1200
		// the slow source scans alone in this burst, so that its report is the one the
		// detector is busy with
		first.Probes = first.Probes[:0]
		for i := 0; i < rapid.IntRange(1, 5).Draw(rt, label+"slow-n"); i++ {
			first.Probes = append(first.Probes, genProbe(rt, label, a, rapid.SampledFrom(protos).Draw(rt, label+"proto"), few, false, i))
		}
		m := rapid.IntRange(101, 150).Draw(rt, label+"big")
		bp := rapid.SampledFrom(protoSets).Draw(rt, label+"big-protos")
		for i := 0; i < m; i++ {
			first.OnHold = append(first.OnHold, genProbe(rt, label, b, rapid.SampledFrom(bp).Draw(rt, label+"proto"), few, true, i))
		}
	}
	// how long the first burst takes: back to back, or spread over more than one / more
	// than two detector periods (a scan that takes its time is more often a big one)
	span := rapid.SampledFrom([]int{0, 0, 0, 5500, 10500}).Draw(rt, label+"span")
	if span > 0 && c.Hold == 0 {
		if rapid.IntRange(0, 3).Draw(rt, label+"paced-big") > 0 {
			m := rapid.SampledFrom([]int{101, 102, 110, 130, 150}).Draw(rt, label+"paced-n")
			if len(first.Probes) > m {
				first.Probes = first.Probes[:m]
			}
			for i := len(first.Probes); i < m; i++ {
				first.Probes = append(first.Probes, genProbe(rt, label, rapid.IntRange(0, nsrc-1).Draw(rt, label+"src"), rapid.SampledFrom(protos).Draw(rt, label+"proto"), few, wide, i))
			}
		}
		minTail := span/1500 + 1
		for i := len(first.Probes); i < minTail+1; i++ {
			first.Probes = append(first.Probes, genProbe(rt, label, rapid.IntRange(0, nsrc-1).Draw(rt, label+"src"), rapid.SampledFrom(protos).Draw(rt, label+"proto"), few, wide, i))
		}
		head := rapid.SampledFrom([]int{0, 1, 50, 100, 101, 102, 120}).Draw(rt, label+"head")
		if head > len(first.Probes)-minTail {
			head = len(first.Probes) - minTail
		}
		first.Head, first.SpanMs = head, span
		if first.groupGapMs() > maxGroupGapMs {
			// a group whose own probes would pause for seconds while others scan is not
			// clearly one burst: the slow part of this scan comes from one group
			g := first.Probes[len(first.Probes)-1]
			for i := head; i < len(first.Probes); i++ {
				q := &first.Probes[i]
				q.Src, q.Proto = g.Src, g.Proto
				if q.Proto != "icmp" && q.Port == 0 {
					q.Port = uint16(21000 + i)
				}
			}
			if first.groupGapMs() > maxGroupGapMs {
				first.Head, first.SpanMs = 0, 0
			}
		}
	}
	c.Phases = append(c.Phases, first)
	// later bursts: the same group again, other sources, or anything
	for ph := 1; ph < nph; ph++ {
		prev := c.Phases[ph-1].Probes
		var p phase
		m := rapid.SampledFrom([]int{0, 1, 1, 2, 3, 5, 8, 30, 101}).Draw(rt, label+"next-probes")
		switch rapid.IntRange(0, 3).Draw(rt, label+"relation") {
		case 0, 1: // non-alternating: the group of the previous burst's last probe scans again
			if len(prev) == 0 {
				break
			}
			lastp := prev[len(prev)-1]
			for i := 0; i < m; i++ {
				q := genProbe(rt, label, lastp.Src, lastp.Proto, few, rapid.Bool().Draw(rt, label+"w"), 500+i)
				p.Probes = append(p.Probes, q)
			}
		case 2: // alternating: other sources than before where possible
			used := map[int]bool{}
			for _, q := range prev {
				used[q.Src] = true
			}
			for i := 0; i < m; i++ {
				s := rapid.IntRange(0, nsrc-1).Draw(rt, label+"src")
				for t := 0; t < nsrc && used[s]; t++ {
					s = (s + 1) % nsrc
				}
				p.Probes = append(p.Probes, genProbe(rt, label, s, rapid.SampledFrom(protos).Draw(rt, label+"proto"), few, false, i))
			}
		default:
			for i := 0; i < m; i++ {
				p.Probes = append(p.Probes, genProbe(rt, label, rapid.IntRange(0, nsrc-1).Draw(rt, label+"src"), rapid.SampledFrom(protos).Draw(rt, label+"proto"), few, wide, 300+i))
			}
		}
		c.Phases = append(c.Phases, p)
	}
	dress(rt, label, &c, nsrc)
	return c
}

// trailers: numbers of link-layer trailer bytes behind the IP datagram, biased to the
// boundaries: one and two bytes, what pads a bare SYN (54 bytes), a SYN with an MSS option
// (58) and an empty UDP datagram or echo request (42) to the 60-byte minimum and one
// less / more, padding plus a 4-byte frame check sequence, long trailers; -1 pads to the
// Ethernet minimum, 0 is a frame that ends with its datagram.
var trailers = []int{1, -1, 2, 6, 0, 5, 7, -1, 17, 18, 19, 22, 4, 46, 64, -1, 3, 300}

// fixedSports: source ports scanners are told to use (nmap -g 20/53/80/88, masscan's
// default 40000..., boundaries); never 22, which the listener leaves to the sensor's own
// ssh daemon.
var fixedSports = []uint16{20, 53, 80, 88, 1024, 32768, 40000, 61000, 65535}

// pairSport: the source port of a scanner that derives it from the probed port (the
// same source/destination port pair every time it probes that port).
func pairSport(src int, port uint16) uint16 {
	return uint16(1024 + (int(port)*7+src*131)%60000)
}

// dress gives the probes of a case their source ports and link-layer framing. Source
// ports per source: a fresh ephemeral port per probe, one fixed source port for every
// probe of every burst, or a port derived from the probed port - with the last two a
// later burst that probes a port again repeats the (source port, destination port) pair
// of the earlier burst. Framing per case: frames that end with the IP datagram, frames
// padded to the Ethernet minimum of 60 bytes (what arrives over a real Ethernet), or
// arbitrary trailers of boundary-biased lengths.
func dress(rt *rapid.T, label string, c *scanCase, nsrc int) {
	var mode [4]int
	var fixed [4]uint16
	for s := 0; s < nsrc && s < 4; s++ {
		mode[s] = rapid.SampledFrom([]int{0, 0, 1, 1, 2}).Draw(rt, label+"sport-mode")
		fixed[s] = rapid.SampledFrom(fixedSports).Draw(rt, label+"sport")
	}
	framing := rapid.SampledFrom([]int{0, 0, 1, 1, 2}).Draw(rt, label+"framing")
	tb := rapid.IntRange(0, len(trailers)-1).Draw(rt, label+"trailer-base")
	n := 0
	each := func(ps []probe) {
		for i := range ps {
			q := &ps[i]
			switch mode[q.Src%4] {
			case 1:
				q.Sport = fixed[q.Src%4]
			case 2:
				q.Sport = pairSport(q.Src, q.Port)
			}
			switch framing {
			case 1:
				q.Trailer = -1
			case 2:
				q.Trailer = trailers[(tb+n)%len(trailers)]
			}
			n++
		}
	}
	for i := range c.Phases {
		each(c.Phases[i].Probes)
		each(c.Phases[i].OnHold)
	}
}

// dims names the source-port and framing classes a case covers (generator health).
func dims(c scanCase) []string {
	have := map[string]bool{}
	earlier := map[string]bool{}
	for _, p := range c.Phases {
		now := map[string]bool{}
		for _, pr := range append(append([]probe(nil), p.Probes...), p.OnHold...) {
			if pr.Sport == 0 {
				have["dim/sport=ephemeral"] = true
			} else {
				have["dim/sport=set/"+pr.Proto] = true
				k := fmt.Sprintf("%d/%s/%d/%d", pr.Src, pr.Proto, pr.Sport, pr.Port)
				if earlier[k] {
					have["dim/same-port-pair-in-later-burst/"+pr.Proto] = true
				}
				now[k] = true
			}
			switch {
			case pr.Trailer < 0:
				have["dim/framing=padded-to-60/"+pr.Proto] = true
			case pr.Trailer > 0:
				have["dim/framing=trailer/"+pr.Proto] = true
			default:
				have["dim/framing=exact"] = true
			}
		}
		for k := range now {
			earlier[k] = true
		}
	}
	out := make([]string, 0, len(have))
	for k := range have {
		out = append(out, k)
	}
	sort.Strings(out)
	return out
}

const ruleText = "scan cases of 1..3 bursts; a burst has 1..150 probes (TCP SYN with/without options to 17 ports or to distinct high ports, UDP with 0/1/4/18 payload bytes to 11 undecoded ports or distinct high ports, ICMP echo with 0/1/16/32 payload bytes) with repeated ports from 1..4 sources (three behind one router hardware address) in rapid-drawn interleavings, written to the socketpair of hooked canaries running the real Start() loop and knock detector in a child; 48-96 independent canaries share the detector ticks of a batch. A later burst of a case (same source and protocol again, other sources, or anything) is sent after the previous burst's reports are complete and one more tick was observed. Two fifths of the first bursts take their time: 0/1/50/100/101/102/120 probes back to back, the others evenly spread over 5.5 s or 10.5 s (more than one / two detector periods; gaps <= 1.5 s and <= 2 s between probes of one source and protocol, measured in the child - a burst whose probes were really written >= 2.5 s apart or that took >= 2 s longer than planned is dropped as inconclusive), three quarters of those with 101..150 probes. Source ports per source of a case: a fresh ephemeral port per probe (2/5), one fixed source port for all its probes in all bursts (2/5; 20, 53, 80, 88, 1024, 32768, 40000, 61000, 65535 - ICMP: fixed echo identifier and sequence number) or a port derived from the probed port (1/5), so that a later burst probing a port again repeats the source/destination port pair of the earlier burst. Link-layer framing per case: frames ending with the IP datagram (2/5), short frames padded to the 60-byte Ethernet minimum (2/5), or trailers of 1/2/3/4/5/6/7/17/18/19/22/46/64/300 bytes, padded and exact frames mixed (1/5) - the trailer is not part of the datagram, the probe counts all the same. In a fifth of the multi-source cases the event channel takes 1.2 s per port-scan event of one source and 101..150 probes of another source arrive while such an event is being delivered. Oracle per burst and (source, destination): the concatenation of portscan.ports over the events of the burst's window is duplicate-free and equals the distinct protocol/port pairs that source probed in the burst; no event for a source that sent nothing in it; a source that probed over k protocols in the burst is reported in at most k events (the listener groups by protocol) - more means one burst was reported in pieces. Two readings of every port-scan event: the capture channel serialises it inside Send and keeps the event object; after every burst (reports complete plus one tick) the retained events of this and all earlier bursts are read again - source, destination and port list must be what they were at delivery (a pusher queues events and marshals them later; an event must not change under it when the detector builds its next report). non-trivial = a repeated protocol/port pair, >= 3 (source, protocol) groups live at a tick, a (source, protocol) group scanning again in a later burst, a slow-channel case, or a paced burst; plus all operation sequences of length <= 6 over 3 keys on the grouping container UniqueSet against an ordered-set model"

// kind reduces an oracle message to its failure kind.
func kind(err error) string {
	m := err.Error()
	var ks []string
	for _, k := range []string{"never reported []", "listed more than once []", "not probed []", "which sent nothing", "port-scan events for one burst", "without a portscan.ports", "for destination", "burst 1 of", "was being delivered", "as in an earlier burst", "behind the IP datagram", "when it was delivered"} {
		if strings.Contains(m, k) {
			ks = append(ks, k)
		}
	}
	return fmt.Sprintf("%v|tcp=%v|udp=%v|icmp=%v", ks, strings.Contains(m, "tcp/"), strings.Contains(m, "udp/"), strings.Contains(m, "icmp"))
}

// confirmAndReport re-runs the failed cases on fresh canaries and reports the smallest
// reproducible one per failure kind.
func confirmAndReport(t *testing.T, r *vlib.Run, l cl.Local, test string, cases []scanCase, verdicts []error, sigs map[string]bool, max int) error {
	var failed []scanCase
	for i, v := range verdicts {
		if v != nil {
			failed = append(failed, cases[i])
		}
	}
	if len(failed) == 0 {
		return nil
	}
	again, err := runBatch(l, failed)
	if err != nil {
		return err
	}
	type cand struct {
		c   scanCase
		err error
	}
	var confirmed []cand
	for i, v := range again {
		if v == nil {
			r.Flaky(fmt.Sprintf("scan case failed once and passed on fresh canaries: %s", vlib.JSON(failed[i])))
			continue
		}
		confirmed = append(confirmed, cand{failed[i], v})
	}
	sort.SliceStable(confirmed, func(i, j int) bool { return confirmed[i].c.probes() < confirmed[j].c.probes() })
	for _, c := range confirmed {
		sig := kind(c.err)
		if sigs[sig] || len(sigs) >= max {
			continue
		}
		sigs[sig] = true
		r.Violation(t, test, c.c, c.err.Error())
	}
	return nil
}

func replayScan(t *testing.T, r *vlib.Run, l cl.Local, test string) bool {
	var c scanCase
	if !vlib.ReplayCase(test, &c) {
		return false
	}
	for attempt := 0; attempt < 2; attempt++ {
		v, err := runBatch(l, []scanCase{c})
		if err != nil {
			t.Fatalf("infra: %v", err)
		}
		if v[0] == nil {
			if attempt > 0 {
				r.Flaky("replayed scan case failed once, passed on re-run")
			}
			return true
		}
		if attempt == 1 {
			r.Violation(t, test, c, v[0].Error())
		}
	}
	return true
}

func TestBursts(t *testing.T) {
	r := vlib.Open(prop)
	l := env(t)
	if replayScan(t, r, l, "TestBursts") {
		return
	}
	r.Rule(ruleText)
	batch := r.Pick(64, 96)
	si, _ := r.Shard()
	checks := r.Pick(2, 16)
	if si == 0 && !r.Thorough() {
		checks = 1 // shard 0 also runs the fixed shapes
	}
	sigs := map[string]bool{}
	box := &cl.Infra{}
	r.Rapid(t, "TestBursts", checks, func(rt *rapid.T) {
		if box.Err() != nil || len(sigs) >= 3 {
			rapid.Bool().Draw(rt, "skipped")
			return
		}
		cases := make([]scanCase, batch)
		for i := range cases {
			cases[i] = genCase(rt, fmt.Sprintf("c%d-", i), r.Pick(2, 3))
			label, fp := classify(cases[i])
			c := cases[i]
			r.Case(label, fp, func() interface{} { return c })
			for _, d := range dims(c) {
				r.Label(d, 1)
			}
		}
		verdicts, err := runBatch(l, cases)
		if err == nil {
			err = confirmAndReport(t, r, l, "TestBursts", cases, verdicts, sigs, 3)
		}
		if err != nil {
			box.Set(err)
		}
	})
	if n := atomic.SwapInt64(&inconclusivePaced, 0); n > 0 {
		r.Label("paced/inconclusive-sender-stalled", n)
	}
	if n := atomic.SwapInt64(&lateReread, 0); n > 0 {
		r.Label("late-read/portscan-events-read-again-after-the-burst", n)
	}
	if n := atomic.SwapInt64(&lateAfterReport, 0); n > 0 {
		r.Label("late-read/read-again-after-a-later-report-of-the-same-detector", n)
	}
	if e := box.Err(); e != nil {
		t.Fatalf("infra: %v", e)
	}
}

// TestBurstShapes runs a fixed list of scan shapes every time (the classes the statement
// names, boundary probes, histories over several ticks, bursts during a slow delivery),
// independent of the seed.
func TestBurstShapes(t *testing.T) {
	r := vlib.Open(prop)
	l := env(t)
	if replayScan(t, r, l, "TestBurstShapes") {
		return
	}
	if vlib.Replaying() {
		return
	}
	if i, _ := r.Shard(); i != 0 {
		return
	}
	r.Rule(ruleText)
	rep := func(src int, proto string, ports ...uint16) []probe {
		var out []probe
		for i, p := range ports {
			out = append(out, probe{Src: src, Proto: proto, Port: p, Payload: []int{4, 0, 1}[i%3], NoOpts: i%2 == 1})
		}
		return out
	}
	join := func(ps ...[]probe) []probe {
		var out []probe
		for _, p := range ps {
			out = append(out, p...)
		}
		return out
	}
	one := func(ps ...[]probe) scanCase { return scanCase{Phases: []phase{{Probes: join(ps...)}}} }
	seq := func(bursts ...[]probe) scanCase {
		var c scanCase
		for _, b := range bursts {
			c.Phases = append(c.Phases, phase{Probes: b})
		}
		return c
	}
	many := func(src int, proto string, n int, distinct int) []probe {
		var out []probe
		for i := 0; i < n; i++ {
			out = append(out, probe{Src: src, Proto: proto, Port: uint16(2000 + i%distinct), Payload: i % 2, NoOpts: i%3 == 0})
		}
		return out
	}
	icmp := func(src, n int) []probe {
		var out []probe
		for i := 0; i < n; i++ {
			out = append(out, probe{Src: src, Proto: "icmp", Payload: []int{0, 16, 1}[i%3]})
		}
		return out
	}
	empty := func(src int, ports ...uint16) []probe {
		var out []probe
		for _, p := range ports {
			out = append(out, probe{Src: src, Proto: "udp", Port: p})
		}
		return out
	}
	slow := func(a int, first []probe, big []probe) scanCase {
		return scanCase{Hold: a + 1, HoldMs: 1200, Phases: []phase{{Probes: first, OnHold: big}}}
	}
	paced := func(head, span int, ps ...[]probe) scanCase {
		return scanCase{Phases: []phase{{Probes: join(ps...), Head: head, SpanMs: span}}}
	}
	// sport: the probes leave from one fixed source port (sp > 0) or from a port derived
	// from the probed port (sp == 0)
	sport := func(sp uint16, ps []probe) []probe {
		out := append([]probe(nil), ps...)
		for i := range out {
			if out[i].Sport = sp; sp == 0 {
				out[i].Sport = pairSport(out[i].Src, out[i].Port)
			}
		}
		return out
	}
	// framed: link-layer trailers, cycling through the given lengths (-1: padded to 60)
	framed := func(c scanCase, tr ...int) scanCase {
		n := 0
		for i := range c.Phases {
			for _, ps := range [][]probe{c.Phases[i].Probes, c.Phases[i].OnHold} {
				for j := range ps {
					ps[j].Trailer = tr[n%len(tr)]
					n++
				}
			}
		}
		return c
	}
	shapes := []scanCase{
		// scanners with a fixed source port, scanning again
		seq(sport(20, rep(0, "tcp", 21, 23)), sport(20, rep(0, "tcp", 21, 23)), sport(20, rep(0, "tcp", 21, 23))),
		seq(sport(53, rep(0, "tcp", 80, 443, 8080, 80)), sport(53, rep(0, "tcp", 8443, 443, 80, 8000))),
		seq(sport(0, rep(1, "tcp", 25, 110, 143)), sport(0, rep(1, "tcp", 143, 993)), sport(0, rep(1, "tcp", 25))),
		seq(sport(53, rep(0, "udp", 7000, 7001)), sport(53, rep(0, "udp", 7001, 7002)), sport(53, rep(0, "udp", 7000))),
		seq(sport(61000, icmp(2, 2)), sport(61000, icmp(2, 1))),
		seq(join(sport(40000, rep(0, "tcp", 80, 81)), sport(40000, rep(1, "tcp", 80, 81))), sport(40000, rep(1, "tcp", 81, 82)), sport(40000, rep(0, "tcp", 80, 83))),
		seq(sport(65535, many(0, "tcp", 101, 101)), sport(65535, many(0, "tcp", 101, 50))),
		// what arrives over a real Ethernet: short frames padded to 60 bytes; other trailers
		framed(one(empty(0, 7001, 7002, 7003)), -1),
		framed(one(rep(0, "udp", 7001), empty(0, 7002), rep(0, "udp", 7003), empty(0, 7004, 7002)), -1),
		framed(one(rep(0, "tcp", 80, 443, 80), rep(0, "udp", 7000, 7001, 7002), icmp(0, 3)), -1),
		framed(one(rep(0, "tcp", 80, 443, 80), rep(0, "udp", 7000, 7001, 7002), icmp(0, 3)), 1, 2, 6, 18, 46),
		framed(one(many(0, "udp", 150, 150)), -1),
		framed(one(many(1, "tcp", 120, 40), many(2, "udp", 30, 30)), 4, -1, 0, 300),
		framed(seq(rep(0, "udp", 7000, 7001), rep(0, "udp", 7001, 7002)), -1),
		framed(seq(sport(20, rep(3, "tcp", 21, 23)), sport(20, rep(3, "tcp", 23, 25))), -1),
		// scans that take longer than one / two detector periods
		paced(105, 5500, many(0, "tcp", 117, 117)),
		paced(101, 10500, many(0, "udp", 150, 150)),
		paced(110, 5500, many(0, "tcp", 120, 3)),
		paced(0, 10500, many(0, "tcp", 150, 150)),
		paced(0, 5500, many(0, "udp", 100, 100)),
		paced(2, 5500, rep(0, "tcp", 80, 443), rep(0, "tcp", 21, 23, 25, 110, 143, 993)),
		paced(130, 5500, many(1, "tcp", 120, 120), many(2, "udp", 20, 20)),
		paced(101, 10500, many(3, "tcp", 101, 101), icmp(3, 9)),
		one(rep(0, "tcp", 80)),
		one(rep(0, "udp", 7000)),
		one(icmp(0, 1)),
		one(rep(0, "tcp", 80, 80, 443, 80)),
		one(rep(0, "udp", 7000, 7000, 7001)),
		one(icmp(0, 5)),
		// boundary probes: what scanners send
		one(empty(0, 7001, 7002, 7003)), // nmap -sU: UDP datagrams without payload
		one(rep(0, "udp", 7001), empty(0, 7002), rep(0, "udp", 7003), empty(0, 7004, 7002)), // mixed
		one([]probe{{Src: 0, Proto: "udp", Port: 9, Payload: 1}}),
		one([]probe{{Src: 0, Proto: "icmp"}}),                        // echo request without data
		one([]probe{{Src: 0, Proto: "tcp", Port: 80, NoOpts: true}}), // bare 20-byte SYN
		one([]probe{{Src: 0, Proto: "tcp", Port: 80, NoOpts: true}, {Src: 0, Proto: "tcp", Port: 80}}),
		one(rep(0, "tcp", 80, 443), rep(0, "udp", 7000, 7001)),
		one(rep(0, "udp", 7000), rep(0, "tcp", 80), rep(0, "udp", 7000), rep(0, "tcp", 80)),
		one(rep(0, "tcp", 80), icmp(0, 2), rep(0, "udp", 500)),
		one(rep(0, "tcp", 80), rep(1, "tcp", 80)),
		one(rep(0, "tcp", 80), rep(1, "tcp", 81), rep(2, "tcp", 82)),
		one(rep(0, "udp", 1), rep(1, "udp", 2), rep(2, "udp", 3), rep(3, "udp", 4)),
		one(icmp(0, 1), icmp(1, 1), icmp(2, 1), icmp(3, 1)),
		one(rep(0, "tcp", 80), rep(1, "udp", 7000), icmp(2, 1)),
		one(rep(0, "tcp", 80), rep(1, "tcp", 80), rep(0, "tcp", 81), rep(1, "tcp", 81), rep(2, "tcp", 80), rep(3, "tcp", 80)),
		one(many(0, "tcp", 100, 100)),
		one(many(0, "tcp", 101, 101)),
		one(many(0, "tcp", 150, 150)),
		one(many(0, "udp", 150, 7)),
		one(many(0, "udp", 150, 150)),
		one(many(0, "tcp", 120, 3), many(1, "udp", 30, 30)),
		one(many(0, "tcp", 50, 50), many(1, "tcp", 50, 50), many(2, "tcp", 50, 50)),
		one(rep(0, "tcp", 80), rep(0, "udp", 80), icmp(0, 1), rep(1, "tcp", 80), rep(1, "udp", 80), icmp(1, 1), rep(2, "tcp", 80), rep(2, "udp", 80), icmp(2, 1), rep(3, "tcp", 80), rep(3, "udp", 80), icmp(3, 1)),
		// histories over several detector ticks
		seq(rep(0, "tcp", 21, 23, 25, 21), rep(0, "tcp", 8080, 8081)),            // the same source scans again
		seq(rep(0, "tcp", 21, 23), rep(0, "tcp", 21, 23), rep(0, "tcp", 21, 23)), // and again, the same ports
		seq(rep(0, "udp", 7000), rep(0, "udp", 7001), rep(0, "udp", 7002)),
		seq(icmp(0, 2), icmp(0, 1), icmp(0, 3)),
		seq(rep(0, "tcp", 80), rep(1, "tcp", 80), rep(0, "tcp", 81)),   // alternating sources
		seq(rep(0, "tcp", 80), rep(0, "udp", 7000), rep(0, "tcp", 81)), // alternating protocols
		seq(join(rep(0, "tcp", 80), rep(1, "tcp", 80)), join(rep(1, "tcp", 81)), join(rep(1, "tcp", 82), rep(0, "tcp", 83))),
		seq(many(0, "tcp", 101, 101), many(0, "tcp", 101, 50)),
		seq(rep(2, "udp", 500), nil, rep(2, "udp", 500)), // a silent period in between
		seq(join(rep(0, "tcp", 80), rep(2, "tcp", 80), rep(3, "tcp", 80)), join(rep(3, "tcp", 81)), join(rep(3, "tcp", 82), rep(2, "tcp", 82))),
		// bursts larger than the knock queue while another source's report is being delivered
		slow(0, rep(0, "udp", 7000), many(1, "udp", 150, 150)),
		slow(0, rep(0, "tcp", 80), many(1, "tcp", 150, 150)),
		slow(1, rep(1, "udp", 7000), join(many(0, "udp", 60, 60), many(0, "tcp", 60, 60), icmp(0, 5))),
		slow(2, icmp(2, 1), join(many(0, "udp", 120, 120), many(3, "tcp", 30, 30))),
		slow(0, rep(0, "udp", 7000), many(2, "udp", 101, 101)), // same router hardware address as the slow source
	}
	for _, c := range shapes {
		c := c
		label, fp := classify(c)
		r.Case("shape/"+label, fp, func() interface{} { return c })
		for _, d := range dims(c) {
			r.Label("shape/"+d, 1)
		}
	}
	verdicts, err := runBatch(l, shapes)
	if err == nil {
		err = confirmAndReport(t, r, l, "TestBurstShapes", shapes, verdicts, map[string]bool{}, 4)
	}
	if n := atomic.SwapInt64(&inconclusivePaced, 0); n > 0 {
		r.Label("paced/inconclusive-sender-stalled", n)
	}
	if n := atomic.SwapInt64(&lateReread, 0); n > 0 {
		r.Label("late-read/portscan-events-read-again-after-the-burst", n)
	}
	if n := atomic.SwapInt64(&lateAfterReport, 0); n > 0 {
		r.Label("late-read/read-again-after-a-later-report-of-the-same-detector", n)
	}
	if err != nil {
		t.Fatalf("infra: %v", err)
	}
}
