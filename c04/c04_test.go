package c04

import (
	"fmt"
	"net"
	"strings"
	"testing"
	"time"

	"pgregory.net/rapid"

	"verif/lab"
	"verif/svc"
	"verif/vlib"
)

const prop = "C04"

func TestMain(m *testing.M) { vlib.Main(m, prop) }

// a replayable case: the concrete wire data and expectations
type cmdRec struct {
	Name string       `json:"name"`
	Wire string       `json:"wire_hex"`
	Exp  []svc.Expect `json:"expect"`
	Ends bool         `json:"ends"`
}

type dialogCase struct {
	Service       string   `json:"service"`
	UDP           bool     `json:"udp"`
	SameSource    bool     `json:"same_source,omitempty"`
	PayloadByRead bool     `json:"payload_by_read"`
	Cmds          []cmdRec `json:"cmds"`
	Mode          string   `json:"mode"` // single | lockstep | cuts | dribble
	Cuts          []int    `json:"cuts,omitempty"`
}

func toCase(d svc.Dialog, mode string, cuts []int) dialogCase {
	c := dialogCase{Service: d.Service, UDP: d.UDP, SameSource: d.SameSource, PayloadByRead: d.PayloadByRead, Mode: mode, Cuts: cuts}
	for _, x := range d.Cmds {
		c.Cmds = append(c.Cmds, cmdRec{x.Name, vlib.Hex(x.Wire), x.Exp, x.Ends})
	}
	return c
}

func (c dialogCase) dialog() svc.Dialog {
	d := svc.Dialog{Service: c.Service, UDP: c.UDP, SameSource: c.SameSource, PayloadByRead: c.PayloadByRead}
	for _, x := range c.Cmds {
		d.Cmds = append(d.Cmds, svc.Cmd{Name: x.Name, Wire: vlib.UnHex(x.Wire), Exp: x.Exp, Ends: x.Ends})
	}
	return d
}

func steps(d svc.Dialog, mode string, cuts []int) []svc.Step {
	switch mode {
	case "lockstep":
		var out []svc.Step
		for _, c := range d.Cmds {
			out = append(out, svc.Step{Data: c.Wire, Wait: true})
		}
		return out
	case "cuts":
		return svc.Segment(d.Stream(), cuts)
	case "dribble":
		return svc.Dribble(d.Stream())
	default:
		return []svc.Step{{Data: d.Stream()}}
	}
}

// runTCP executes the dialog in one delivery mode and returns the connection's events.
func runTCP(in *svc.Instance, d svc.Dialog, mode string, cuts []int) ([]lab.Ev, error) {
	sc := &svc.Script{Service: d.Service, Steps: steps(d, mode, cuts)}
	se, closed := in.RunOne(sc, 60*time.Second)
	if !closed {
		// whether handlers terminate is C09's property; here it only means the event list
		// cannot be judged complete
		return nil, fmt.Errorf("inconclusive: connection not closed within 60s after the client's EOF (mode %s)", mode)
	}
	want := len(d.Expected())
	// event pumps are asynchronous: wait for the expected number, then a little longer for extras
	in.Cap.WaitFor(3*time.Second, func(all []lab.Ev) bool {
		return len(tracked(d.Service, lab.From(all, sc.SrcIP.String(), sc.SrcPort))) >= want
	})
	time.Sleep(3 * time.Millisecond)
	return se.Events(), nil
}

func tracked(service string, evs []lab.Ev) []lab.Ev {
	var out []lab.Ev
	for _, e := range evs {
		if svc.Track(service, e) {
			out = append(out, e)
		}
	}
	return out
}

func canon(d svc.Dialog, evs []lab.Ev) []string {
	skip := append([]string{}, svc.SessionKeys...)
	if d.PayloadByRead {
		skip = append(skip, "payload", "payload-hex", "payload-length")
	}
	return svc.Canon(evs, skip...)
}

func checkTCP(c dialogCase) error {
	in, err := svc.Shared()
	if err != nil {
		return fmt.Errorf("infra: %v", err)
	}
	d := c.dialog()
	base, err := runTCP(in, d, "single", nil)
	if err != nil {
		return err
	}
	if err := checkEvents(d, base, "single write"); err != nil {
		return err
	}
	if c.Mode == "single" {
		return nil
	}
	got, err := runTCP(in, d, c.Mode, c.Cuts)
	if err != nil {
		return err
	}
	if err := checkEvents(d, got, c.Mode); err != nil {
		return err
	}
	a, b := canon(d, base), canon(d, got)
	if strings.Join(a, "\n") != strings.Join(b, "\n") {
		return fmt.Errorf("event list under %s delivery %v differs from single-write delivery:\n single: %s\n %s: %s", c.Mode, c.Cuts, trunc(strings.Join(a, " || ")), c.Mode, trunc(strings.Join(b, " || ")))
	}
	return nil
}

func trunc(s string) string {
	if len(s) > 700 {
		return s[:700] + "..."
	}
	return s
}

func checkEvents(d svc.Dialog, evs []lab.Ev, how string) error {
	for _, e := range evs {
		if e.SerErr != "" {
			return fmt.Errorf("event does not serialise: %s", e.SerErr)
		}
	}
	if err := svc.Compare(d.Expected(), tracked(d.Service, evs)); err != nil {
		return fmt.Errorf("[%s, %s] %v", d.Summary(), how, err)
	}
	return nil
}

func nontrivial(c dialogCase) bool {
	if len(c.Cmds) < 2 {
		return false
	}
	switch c.Mode {
	case "single":
		return true // >=2 requests in one write
	case "cuts", "dribble":
		return true
	}
	return false
}

func TestTCP(t *testing.T) {
	r := vlib.Open(prop)
	var dc dialogCase
	if vlib.ReplayCase("TestTCP", &dc) {
		if err := checkTCP(dc); err != nil {
			r.Violation(t, "TestTCP", dc, err.Error())
		}
		return
	}
	r.Rule("TCP: command sequences from per-protocol grammars (ftp, smtp incl. DATA/BDAT, redis, memcached, telnet, http keep-alive, elasticsearch, eos, ethereum, docker, cwmp, ldap) plus telnet / ftp / memcached / smtp dialogs with 2-, 3- and 4-byte UTF-8 characters in their text fields, delivered through the real server on the in-memory listener as a single write (pipelined), lock-step, k random cuts (half of them inside a multi-byte character when there is one) and 1-byte dribble; oracle = expected event list computed from the generated command list (reference) AND equality with the single-write event list (metamorphic); non-trivial = >=2 commands and (a cut or >=2 requests in one write); distinct by wire bytes + delivery")
	r.Rapid(t, "TestTCP", r.Pick(560, 1500), func(rt *rapid.T) {
		service := rapid.SampledFrom(tcpKinds).Draw(rt, "service")
		d, hot := genTCPHot(rt, service)
		mode := rapid.SampledFrom([]string{"single", "lockstep", "cuts", "cuts", "dribble"}).Draw(rt, "mode")
		var cuts []int
		n := len(d.Stream())
		if mode == "cuts" && n > 1 {
			k := rapid.IntRange(1, 4).Draw(rt, "ncuts")
			inChar := inCharCuts(d.Stream())
			for i := 0; i < k; i++ {
				if len(inChar) > 0 && rapid.Bool().Draw(rt, "cut-in-char") {
					// boundary-biased: a cut inside a multi-byte character
					cuts = append(cuts, rapid.SampledFrom(inChar).Draw(rt, "cut"))
					continue
				}
				if len(hot) > 0 && rapid.Bool().Draw(rt, "cut-in-header") {
					// boundary-biased: a cut inside a unit's length-bearing header
					cuts = append(cuts, rapid.SampledFrom(hot).Draw(rt, "cut"))
					continue
				}
				cuts = append(cuts, rapid.IntRange(1, n-1).Draw(rt, "cut"))
			}
		}
		if mode == "dribble" && n > 600 {
			mode = "cuts"
			cuts = []int{n / 3, n / 2}
			if len(hot) > 0 {
				// too long for a 1-byte dribble of everything: dribble through the units' headers
				cuts = append(cuts, hot...)
			}
		}
		c := toCase(d, mode, cuts)
		for _, k := range knownExclusions(r, c) {
			r.Excluded(k)
			rt.Skip("known finding excluded")
		}
		fp := ""
		if nontrivial(c) {
			fp = vlib.JSON(c)
		}
		r.Case(fmt.Sprintf("tcp/%s/%s", service, mode), fp, func() interface{} {
			return map[string]interface{}{"dialog": d.Summary(), "mode": mode, "cuts": cuts, "bytes": n}
		})
		if err := checkTCP(c); err != nil {
			if strings.HasPrefix(err.Error(), "infra:") {
				rt.Fatalf("%v", err)
			}
			if strings.Contains(err.Error(), "inconclusive:") {
				r.Label("inconclusive/not-closed", 1)
				return
			}
			r.Fail(rt, "TestTCP", c, "%v", err)
		}
	})
}

// every single cut point of the stream, exhaustively, for short dialogs
func TestEveryCut(t *testing.T) {
	r := vlib.Open(prop)
	var dc dialogCase
	if vlib.ReplayCase("TestEveryCut", &dc) {
		if err := checkTCP(dc); err != nil {
			r.Violation(t, "TestEveryCut", dc, err.Error())
		}
		return
	}
	r.Rule("every single cut point of the byte stream (exhaustive per generated dialog, streams <= 500 bytes)")
	r.Rapid(t, "TestEveryCut", r.Pick(14, 90), func(rt *rapid.T) {
		service := rapid.SampledFrom(tcpKinds).Draw(rt, "service")
		d := genTCP(rt, service)
		n := len(d.Stream())
		if n > 500 || n < 2 {
			rt.Skip("stream too long for the exhaustive cut sweep")
		}
		if ks := knownExclusions(r, toCase(d, "cuts", []int{1})); len(ks) > 0 {
			r.Excluded(ks[0])
			rt.Skip("known finding excluded")
		}
		in, err := svc.Shared()
		if err != nil {
			rt.Fatalf("infra: %v", err)
		}
		base, err := runTCP(in, d, "single", nil)
		if err == nil {
			err = checkEvents(d, base, "single write")
		}
		if err != nil {
			if strings.Contains(err.Error(), "inconclusive:") {
				rt.Skip("inconclusive")
			}
			r.Fail(rt, "TestEveryCut", toCase(d, "single", nil), "%v", err)
		}
		a := strings.Join(canon(d, base), "\n")
		for cut := 1; cut < n; cut++ {
			c := toCase(d, "cuts", []int{cut})
			r.Case("everycut/"+service, fmt.Sprint(vlib.JSON(c.Cmds), cut), nil)
			got, err := runTCP(in, d, "cuts", []int{cut})
			if err == nil {
				err = checkEvents(d, got, fmt.Sprintf("cut at %d", cut))
			}
			if err == nil && strings.Join(canon(d, got), "\n") != a {
				err = fmt.Errorf("event list with a cut at byte %d differs from single-write delivery", cut)
			}
			if err != nil {
				if strings.Contains(err.Error(), "inconclusive:") {
					r.Label("inconclusive/not-closed", 1)
					continue
				}
				r.Fail(rt, "TestEveryCut", c, "%v", err)
			}
		}
		r.Sample("everycut/"+service, map[string]interface{}{"dialog": d.Summary(), "cuts_swept": n - 1})
	})
}

// UDP: each datagram through the server's dispatcher, decoded and reported on its own.
func checkUDP(c dialogCase) error {
	in, err := svc.Shared()
	if err != nil {
		return fmt.Errorf("infra: %v", err)
	}
	d := c.dialog()
	var srcIP net.IP
	var srcPort int
	if d.SameSource {
		srcIP, srcPort = svc.NextClient()
	}
	seen := 0
	for i, cmd := range d.Cmds {
		sc := &svc.Script{Service: d.Service, UDP: true, Steps: []svc.Step{{Data: cmd.Wire}}, SrcIP: srcIP, SrcPort: srcPort}
		se, _ := in.RunOne(sc, 0)
		if d.SameSource {
			// lock-step like a real client: wait for the reply to this datagram
			deadline := time.Now().Add(5 * time.Second)
			for len(se.Dgrams[0].Snapshot()) == 0 && time.Now().Before(deadline) {
				time.Sleep(200 * time.Microsecond)
			}
			if len(se.Dgrams[0].Snapshot()) == 0 {
				return fmt.Errorf("[%s datagram %d %s] no reply to a datagram of an orderly transfer", d.Service, i, cmd.Name)
			}
		}
		want := seen + len(cmd.Exp)
		in.Cap.WaitFor(3*time.Second, func(all []lab.Ev) bool {
			return len(tracked(d.Service, lab.From(all, sc.SrcIP.String(), sc.SrcPort))) >= want
		})
		time.Sleep(2 * time.Millisecond)
		evs := lab.From(in.Cap.Events(), sc.SrcIP.String(), sc.SrcPort)
		for _, e := range evs {
			if e.SerErr != "" {
				return fmt.Errorf("event does not serialise: %s", e.SerErr)
			}
		}
		if d.SameSource {
			// events of the shared source accumulate: compare the new ones
			tr := tracked(d.Service, evs)
			if len(tr) < seen {
				return fmt.Errorf("[%s datagram %d] events disappeared", d.Service, i)
			}
			if err := svc.Compare(cmd.Exp, tr[seen:]); err != nil {
				return fmt.Errorf("[%s datagram %d %s of an upload] %v", d.Service, i, cmd.Name, err)
			}
			seen = len(tr)
			continue
		}
		if err := svc.Compare(cmd.Exp, tracked(d.Service, evs)); err != nil {
			return fmt.Errorf("[%s datagram %d %s] %v", d.Service, i, cmd.Name, err)
		}
	}
	return nil
}

func TestUDP(t *testing.T) {
	r := vlib.Open(prop)
	var dc dialogCase
	if vlib.ReplayCase("TestUDP", &dc) {
		if err := checkUDP(dc); err != nil {
			r.Violation(t, "TestUDP", dc, err.Error())
		}
		return
	}
	r.Rule("UDP: datagrams for dns, tftp, snmp, memcached (8-byte header, 1..3 command lines) and counterstrike, each handed to the server's dispatcher as the socket listener does (wrapped in the timeout connection), from a fresh source address; oracle = the datagram's decoded fields appear in exactly the expected events; non-trivial = datagram that decodes")
	r.Rapid(t, "TestUDP", r.Pick(1000, 4000), func(rt *rapid.T) {
		service := rapid.SampledFrom(svc.UDPServices).Draw(rt, "service")
		var d svc.Dialog
		if (service == "snmp" || service == "dns") && rapid.Bool().Draw(rt, "big") {
			snmpMax := 1400
			if service == "snmp" && excludedFinding(r, kfSNMPLong) {
				snmpMax = 127 // whole message in the short length form
				r.Excluded(kfSNMPLong)
			}
			d = genUDPBig(rt, service, snmpMax)
			service += "-big"
		} else {
			d = svc.GenUDP(rt, service)
		}
		if service == "tftp" && rapid.Bool().Draw(rt, "upload") {
			d = svc.GenTFTPUpload(rt)
			service = "tftp-upload"
		}
		c := toCase(d, "datagram", nil)
		r.Case("udp/"+service, vlib.JSON(c.Cmds), func() interface{} { return map[string]interface{}{"dialog": d.Summary(), "first_hex": c.Cmds[0].Wire} })
		if err := checkUDP(c); err != nil {
			if strings.HasPrefix(err.Error(), "infra:") {
				rt.Fatalf("%v", err)
			}
			r.Fail(rt, "TestUDP", c, "%v", err)
		}
	})
}

// knownExclusions: shapes of recorded-not-repaired findings, excluded by construction.
func knownExclusions(r *vlib.Run, c dialogCase) []string {
	return nil
}

// ---------------------------------------------------------------- UDP through the real socket listener

type sockCase struct {
	Service string   `json:"service"`
	Dgrams  []cmdRec `json:"datagrams"`
}

var (
	sockInst  *lab.Server
	sockCap   *lab.Capture
	sockPorts = map[string]int{}
	sockErr   error
	sockOnce  bool
)

func sockServer() error {
	if sockOnce {
		return sockErr
	}
	sockOnce = true
	id := lab.NextID()
	var b strings.Builder
	fmt.Fprintf(&b, "[listener]\ntype=\"socket\"\n\n[channel.cap]\ntype=\"verif-capture\"\nid=%q\n\n[[filter]]\nchannel=[\"cap\"]\n\n", id+"-cap")
	for _, s := range svc.UDPServices {
		var port int
		for try := 0; try < 50; try++ {
			l, err := net.ListenPacket("udp", "127.0.0.1:0")
			if err != nil {
				sockErr = err
				return err
			}
			port = l.LocalAddr().(*net.UDPAddr).Port
			l.Close()
			if port > 20000 {
				break
			}
		}
		sockPorts[s] = port
		fmt.Fprintf(&b, "[service.%s]\ntype=%q\n\n[[port]]\nport=\"udp/127.0.0.1:%d\"\nservices=[%q]\n\n", s, s, port, s)
	}
	sockInst, sockErr = lab.StartSocket(id, b.String())
	if sockErr == nil {
		sockCap = lab.GetCapture(id + "-cap")
		if sockCap == nil {
			sockErr = fmt.Errorf("capture channel missing")
		}
	}
	return sockErr
}

var sockSerial int

func checkSocketBurst(c sockCase) error {
	if err := sockServer(); err != nil {
		return fmt.Errorf("infra: %v", err)
	}
	var last error
	for attempt := 0; attempt < 3; attempt++ {
		last = socketBurstOnce(c)
		if last == nil || !strings.HasPrefix(last.Error(), "missing:") {
			return last
		}
	}
	return fmt.Errorf("%s (in 3 of 3 attempts)", strings.TrimPrefix(last.Error(), "missing:"))
}

func socketBurstOnce(c sockCase) error {
	mark := sockCap.Len()
	type sent struct {
		conn *net.UDPConn
		ip   string
		port int
	}
	var socks []sent
	defer func() {
		for _, s := range socks {
			s.conn.Close()
		}
	}()
	dst := &net.UDPAddr{IP: net.IPv4(127, 0, 0, 1), Port: sockPorts[c.Service]}
	for range c.Dgrams {
		// every datagram from its own loopback source address (127.x.y.z): the rate limiters
		// count per source IP and are a property of their own (C10)
		sockSerial++
		src := net.IPv4(127, byte(1+(sockSerial>>16)&0x7f), byte(sockSerial>>8), byte(sockSerial))
		uc, err := net.DialUDP("udp", &net.UDPAddr{IP: src}, dst)
		if err != nil {
			return fmt.Errorf("infra: %v", err)
		}
		socks = append(socks, sent{uc, src.String(), uc.LocalAddr().(*net.UDPAddr).Port})
	}
	// back to back
	for i, d := range c.Dgrams {
		socks[i].conn.Write(vlib.UnHex(d.Wire))
	}
	want := 0
	for _, d := range c.Dgrams {
		want += len(d.Exp)
	}
	sockCap.WaitFor(4*time.Second, func(all []lab.Ev) bool {
		n := 0
		for _, e := range all[mark:] {
			if svc.Track(c.Service, e) {
				n++
			}
		}
		return n >= want
	})
	time.Sleep(5 * time.Millisecond)
	evs := sockCap.Events()[mark:]
	for i, d := range c.Dgrams {
		mine := tracked(c.Service, lab.From(evs, socks[i].ip, socks[i].port))
		if len(mine) < len(d.Exp) {
			return fmt.Errorf("missing:datagram %d (%s) from source port %d: %d events, %d expected", i, d.Name, socks[i].port, len(mine), len(d.Exp))
		}
		if err := svc.Compare(d.Exp, mine); err != nil {
			return fmt.Errorf("datagram %d of a back-to-back burst of %d (%s via the socket listener): %v", i, len(c.Dgrams), c.Service, err)
		}
	}
	return nil
}

func TestUDPSocketBurst(t *testing.T) {
	r := vlib.Open(prop)
	var sc sockCase
	if vlib.ReplayCase("TestUDPSocketBurst", &sc) {
		if err := checkSocketBurst(sc); err != nil {
			r.Violation(t, "TestUDPSocketBurst", sc, err.Error())
		}
		return
	}
	r.Rule("UDP through the REAL socket listener on loopback: bursts of 2..24 distinct grammar datagrams sent back to back from distinct source ports; oracle = each datagram's own decoded fields in the events of its source port (a datagram whose events never show is re-measured twice)")
	r.Rapid(t, "TestUDPSocketBurst", r.Pick(60, 400), func(rt *rapid.T) {
		service := rapid.SampledFrom(svc.UDPServices).Draw(rt, "service")
		c := sockCase{Service: service}
		n := rapid.IntRange(2, 24).Draw(rt, "burst")
		for len(c.Dgrams) < n {
			d := svc.GenUDP(rt, service)
			for _, x := range d.Cmds {
				c.Dgrams = append(c.Dgrams, cmdRec{x.Name, vlib.Hex(x.Wire), x.Exp, false})
			}
		}
		r.Case("udp-socket-burst/"+service, vlib.JSON(c), func() interface{} { return map[string]interface{}{"service": service, "datagrams": len(c.Dgrams)} })
		if err := checkSocketBurst(c); err != nil {
			if strings.HasPrefix(err.Error(), "infra:") {
				rt.Fatalf("%v", err)
			}
			r.Fail(rt, "TestUDPSocketBurst", c, "%v", err)
		}
	})
}
