package c07

import (
	"bytes"
	"encoding/json"
	"fmt"
	"os"
	"path/filepath"
	"sort"
	"strings"
	"sync"
	"sync/atomic"
	"testing"
	"time"

	"github.com/honeytrap/honeytrap/event"
	"github.com/honeytrap/honeytrap/pushers"
	filech "github.com/honeytrap/honeytrap/pushers/file"
	"pgregory.net/rapid"

	"verif/vlib"
)

const prop = "C07"

func TestMain(m *testing.M) { vlib.Main(m, prop) }

// A line is a JSON object of an exact total length (including the newline).
func mkLine(id, total int) []byte {
	base := fmt.Sprintf(`{"id":%d,"p":""}`, id)
	pad := total - 1 - len(base)
	if pad < 0 {
		pad = 0
	}
	return []byte(fmt.Sprintf(`{"id":%d,"p":"%s"}`+"\n", id, strings.Repeat("x", pad)))
}

const minLine = 24

type writerCase struct {
	Max     int64   `json:"max"`
	Writes  [][]int `json:"writes"` // per Write call: the line lengths (incl. newline) of the batch
	Fault   string  `json:"fault,omitempty"`
	FaultAt int     `json:"fault_at,omitempty"` // before which write
}

// scan reads <file> and <file>.*, checks every line and returns id -> count, plus a
// per-file description for error messages.
func scan(path string, max int64) (map[int]int, []string, error) {
	files, _ := filepath.Glob(path + ".*")
	files = append(files, path)
	sort.Strings(files)
	ids := map[int]int{}
	var desc []string
	for _, f := range files {
		data, err := os.ReadFile(f)
		if err != nil {
			if os.IsNotExist(err) {
				continue
			}
			return nil, nil, err
		}
		lines := bytes.Split(data, []byte("\n"))
		if len(lines) > 0 && len(lines[len(lines)-1]) == 0 {
			lines = lines[:len(lines)-1]
		}
		desc = append(desc, fmt.Sprintf("%s:%dB/%dlines", filepath.Base(f), len(data), len(lines)))
		for i, ln := range lines {
			var m struct {
				ID *int   `json:"id"`
				P  string `json:"p"`
			}
			if err := json.Unmarshal(ln, &m); err != nil || m.ID == nil {
				return nil, desc, fmt.Errorf("%s line %d is not a complete JSON event: %q (%v)", filepath.Base(f), i, head(ln), err)
			}
			ids[*m.ID]++
		}
		if int64(len(data)) > max && len(lines) > 1 {
			return nil, desc, fmt.Errorf("%s is %d bytes (max %d) but holds %d lines", filepath.Base(f), len(data), max, len(lines))
		}
	}
	return ids, desc, nil
}

func head(b []byte) string {
	if len(b) > 60 {
		return string(b[:30]) + "..." + string(b[len(b)-20:])
	}
	return string(b)
}

func checkWriter(dir string, c writerCase) error {
	os.RemoveAll(dir)
	if err := os.MkdirAll(dir, 0755); err != nil {
		return fmt.Errorf("infra: %v", err)
	}
	path := filepath.Join(dir, "events.log")
	w, err := filech.OpenRotateFile(path, 0600, c.Max)
	if err != nil {
		return fmt.Errorf("infra: open: %v", err)
	}
	id := 0
	lost := map[int]bool{} // ids the test itself destroyed by removing a file
	var written []int
	for wi, batch := range c.Writes {
		if c.Fault != "" && wi == c.FaultAt {
			switch c.Fault {
			case "remove":
				os.Remove(path)
				for _, x := range written {
					// everything still in the live file is gone; rotated files stay
					lost[x] = true
				}
			case "rename":
				os.Rename(path, path+".moved-by-test")
			case "restart":
				// the process is restarted: a new writer instance on the same path
				w.Sync()
				w.Close()
				w, err = filech.OpenRotateFile(path, 0600, c.Max)
				if err != nil {
					return fmt.Errorf("infra: reopen: %v", err)
				}
			}
		}
		var buf bytes.Buffer
		for _, l := range batch {
			buf.Write(mkLine(id, l))
			written = append(written, id)
			id++
		}
		n, err := w.Write(buf.Bytes())
		if err != nil {
			return fmt.Errorf("Write %d returned error %v", wi, err)
		}
		if n != buf.Len() {
			return fmt.Errorf("Write %d returned %d for %d bytes", wi, n, buf.Len())
		}
	}
	w.Sync()
	w.Close()
	ids, desc, err := scan(path, c.Max)
	if err != nil {
		return fmt.Errorf("%v; files=%v", err, desc)
	}
	for i := 0; i < id; i++ {
		if ids[i] == 0 && lost[i] {
			continue
		}
		if ids[i] != 1 {
			// after a removal, ids in the removed live file may or may not survive in rotated copies
			if lost[i] && ids[i] <= 1 {
				continue
			}
			return fmt.Errorf("event %d appears %d times (want exactly once); files=%v", i, ids[i], desc)
		}
	}
	for k := range ids {
		if k < 0 || k >= id {
			return fmt.Errorf("unknown id %d in the files", k)
		}
	}
	return nil
}

func rotations(c writerCase) int {
	// rough count: how many times the running size crosses max
	var pos int64
	n := 0
	for _, b := range c.Writes {
		for _, l := range b {
			if pos+int64(l) > c.Max {
				n++
				pos = 0
			}
			pos += int64(l)
		}
	}
	return n
}

func boundarySet(max int) []int {
	return []int{minLine, minLine + 1, max / 2, max - minLine - 1, max - minLine, max - 2, max - 1, max, max + 1, 2*max + 3}
}

// all compositions of n (ways to batch n lines into consecutive writes)
func compositions(n int) [][]int {
	if n == 0 {
		return [][]int{{}}
	}
	var out [][]int
	for first := 1; first <= n; first++ {
		for _, rest := range compositions(n - first) {
			out = append(out, append([]int{first}, rest...))
		}
	}
	return out
}

func TestWriterExhaustive(t *testing.T) {
	r := vlib.Open(prop)
	dir, _ := os.MkdirTemp("", "c07w")
	defer os.RemoveAll(dir)
	var wc writerCase
	if vlib.ReplayCase("TestWriterExhaustive", &wc) {
		if err := checkWriter(filepath.Join(dir, "r"), wc); err != nil {
			r.Violation(t, "TestWriterExhaustive", wc, err.Error())
		}
		return
	}
	if vlib.Replaying() {
		return
	}
	depth := r.Pick(4, 5)
	max := 1024
	set := boundarySet(max)
	r.Rule(fmt.Sprintf("rotating writer driven directly: max=1024, ALL sequences of 1..%d lines with lengths from the boundary set %v x ALL batchings of the lines into Write calls; all within one wall-clock second so rotations share a timestamp; oracle = every line in <file>,<file>.* is complete JSON, id multiset equals ids written, no multi-line file above max; non-trivial = >=1 rotation; distinct by construction", depth, set))
	si, sn := r.Shard()
	var n, nt int64
	idx := 0
	seq := []int{}
	var rec func() bool
	rec = func() bool {
		if len(seq) > 0 {
			idx++
			if idx%sn == si {
				for _, comp := range compositions(len(seq)) {
					c := writerCase{Max: int64(max)}
					k := 0
					for _, cnt := range comp {
						c.Writes = append(c.Writes, append([]int(nil), seq[k:k+cnt]...))
						k += cnt
					}
					n++
					if rotations(c) > 0 {
						nt++
					}
					if n == 1 {
						r.Sample("writer/exhaustive", c)
					}
					if err := checkWriter(filepath.Join(dir, fmt.Sprint(si)), c); err != nil {
						if strings.HasPrefix(err.Error(), "infra:") {
							t.Fatalf("%v", err)
						}
						r.Violation(t, "TestWriterExhaustive", c, err.Error())
						return false
					}
				}
			}
		}
		if len(seq) == depth {
			return true
		}
		for _, l := range set {
			seq = append(seq, l)
			ok := rec()
			seq = seq[:len(seq)-1]
			if !ok {
				return false
			}
		}
		return true
	}
	ok := rec()
	r.Bulk(fmt.Sprintf("writer/exhaustive-depth<=%d", depth), n, nt)
	if ok {
		r.Exhaustive(fmt.Sprintf("all line-length sequences of length <= %d over the 10-element boundary set for max 1024, all batchings", depth))
	}
}

func TestWriterSampled(t *testing.T) {
	r := vlib.Open(prop)
	dir, _ := os.MkdirTemp("", "c07s")
	defer os.RemoveAll(dir)
	var wc writerCase
	if vlib.ReplayCase("TestWriterSampled", &wc) {
		if err := checkWriter(filepath.Join(dir, "r"), wc); err != nil {
			r.Violation(t, "TestWriterSampled", wc, err.Error())
		}
		return
	}
	r.Rule("rotating writer sampled: max in {1024, 4096, 1 MiB}, 1..12 writes of 1..40 lines (lengths around the boundary and random), 500 KiB batches, external removal / rename of the live file and restart (new writer instance on the same path) between writes")
	r.Rapid(t, "TestWriterSampled", r.Pick(1500, 15000), func(rt *rapid.T) {
		max := rapid.SampledFrom([]int{1024, 1024, 4096, 4096, 1 << 20}).Draw(rt, "max")
		c := writerCase{Max: int64(max)}
		nw := rapid.IntRange(1, 12).Draw(rt, "writes")
		big := max == 1<<20
		for i := 0; i < nw; i++ {
			nl := rapid.IntRange(1, 40).Draw(rt, "lines")
			var batch []int
			for j := 0; j < nl; j++ {
				var l int
				if big {
					l = rapid.OneOf(rapid.IntRange(minLine, 2000), rapid.SampledFrom([]int{500 * 1024, 300 * 1024, max - 1, max, max + 1})).Draw(rt, "len")
					if l > 100000 && nl > 6 {
						l = 1000
					}
				} else {
					l = rapid.OneOf(rapid.IntRange(minLine, 300), rapid.SampledFrom(boundarySet(max)), rapid.IntRange(minLine, 2*max)).Draw(rt, "len")
				}
				batch = append(batch, l)
			}
			c.Writes = append(c.Writes, batch)
		}
		if rapid.IntRange(0, 3).Draw(rt, "fault") == 0 && nw > 1 {
			c.Fault = rapid.SampledFrom([]string{"remove", "rename", "restart", "restart"}).Draw(rt, "faultkind")
			c.FaultAt = rapid.IntRange(1, nw-1).Draw(rt, "faultat")
		}
		fp := ""
		if rotations(c) > 0 {
			fp = vlib.JSON(c)
		}
		r.Case(fmt.Sprintf("writer/sampled/max=%d/fault=%s", max, c.Fault), fp, func() interface{} { return c })
		if err := checkWriter(filepath.Join(dir, "s"), c); err != nil {
			if strings.HasPrefix(err.Error(), "infra:") {
				rt.Fatalf("%v", err)
			}
			r.Fail(rt, "TestWriterSampled", c, "%v", err)
		}
	})
}

// ---------------------------------------------------------------- the whole channel

type chanCase struct {
	Max    int64 `json:"max"`
	Sizes  []int `json:"pad_sizes"` // per event
	Burst  int   `json:"burst"`     // events per burst; a pause longer than the flush interval follows each burst
	Broken bool  `json:"broken"`    // destination directory does not exist
}

func sendWithin(ch pushers.Channel, e event.Event, d time.Duration) bool {
	done := make(chan struct{})
	go func() {
		ch.Send(e)
		close(done)
	}()
	select {
	case <-done:
		return true
	case <-time.After(d):
		return false
	}
}

// checkChannels runs many channel instances side by side so that one flush interval
// serves them all. Returns the index of the failing case.
func checkChannels(dir string, cases []chanCase) (int, error) {
	type inst struct {
		ch   pushers.Channel
		path string
	}
	insts := make([]inst, len(cases))
	for i, c := range cases {
		d := filepath.Join(dir, fmt.Sprintf("c%d", i))
		if !c.Broken {
			os.MkdirAll(d, 0755)
		}
		p := filepath.Join(d, "events.log")
		mx := c.Max
		ch, err := filech.New(func(pc pushers.Channel) error {
			fb := pc.(*filech.FileBackend)
			fb.File = p
			fb.MaxSize = mx
			return nil
		})
		if err != nil {
			return i, fmt.Errorf("infra: %v", err)
		}
		insts[i] = inst{ch, p}
	}
	// send in rounds (bursts); after each round wait longer than the flush interval
	maxRounds := 0
	for _, c := range cases {
		b := c.Burst
		if b <= 0 {
			b = len(c.Sizes)
		}
		rounds := (len(c.Sizes) + b - 1) / b
		if rounds > maxRounds {
			maxRounds = rounds
		}
	}
	var firstErr error
	firstIdx := -1
	var mu sync.Mutex
	for round := 0; round < maxRounds; round++ {
		var wg sync.WaitGroup
		for i, c := range cases {
			b := c.Burst
			if b <= 0 {
				b = len(c.Sizes)
			}
			lo, hi := round*b, (round+1)*b
			if lo >= len(c.Sizes) {
				continue
			}
			if hi > len(c.Sizes) {
				hi = len(c.Sizes)
			}
			wg.Add(1)
			go func(i int, c chanCase, lo, hi int) {
				defer wg.Done()
				for j := lo; j < hi; j++ {
					e := event.New(event.Category("c07"), event.Custom("id", j), event.Custom("p", strings.Repeat("y", c.Sizes[j])))
					if !sendWithin(insts[i].ch, e, 10*time.Second) {
						// measure twice before calling it blocked
						time.Sleep(5 * time.Second)
						mu.Lock()
						if firstErr == nil {
							firstErr, firstIdx = fmt.Errorf("Send of event %d still blocked after 15s (destination broken=%v)", j, c.Broken), i
						}
						mu.Unlock()
						return
					}
				}
			}(i, c, lo, hi)
		}
		wg.Wait()
		if firstErr != nil {
			return firstIdx, firstErr
		}
		time.Sleep(1300 * time.Millisecond)
	}
	// quiescence: wait for all lines
	deadline := time.Now().Add(12 * time.Second)
	for i, c := range cases {
		if c.Broken {
			continue
		}
		lastTotal := -1
		for {
			ids, desc, err := scanEvents(insts[i].path, c.Max)
			total := 0
			for _, n := range ids {
				total += n
			}
			if total != lastTotal {
				// still being written: the wait is for quiescence, not a fixed time
				lastTotal = total
				if d := time.Now().Add(6 * time.Second); d.After(deadline) {
					deadline = d
				}
			}
			if (err != nil || total < len(c.Sizes)) && time.Now().Before(deadline) {
				// a line being written right now reads as incomplete: look again
				time.Sleep(100 * time.Millisecond)
				continue
			}
			if err != nil {
				return i, fmt.Errorf("%v; files=%v", err, desc)
			}
			for j := range c.Sizes {
				if ids[j] != 1 {
					return i, fmt.Errorf("event %d appears %d times in the log files (want exactly once); files=%v", j, ids[j], desc)
				}
			}
			break
		}
	}
	return -1, nil
}

func scanEvents(path string, max int64) (map[int]int, []string, error) {
	return scan(path, max)
}

func TestChannel(t *testing.T) {
	r := vlib.Open(prop)
	dir, _ := os.MkdirTemp("", "c07c")
	defer os.RemoveAll(dir)
	var cc chanCase
	if vlib.ReplayCase("TestChannel", &cc) {
		if _, err := checkChannels(filepath.Join(dir, "r"), []chanCase{cc}); err != nil {
			r.Violation(t, "TestChannel", cc, err.Error())
		}
		return
	}
	r.Rule("whole file channel (Send -> writer goroutine -> flush): max in {1024, 4096}, 1..60 events of generated sizes in 1..3 bursts separated by more than the flush interval, plus instances whose destination directory does not exist (Send must still return); many instances share one flush interval; non-trivial = total bytes exceed max (>=1 rotation) or broken destination")
	rounds := r.Pick(2, 8)
	per := r.Pick(80, 200)
	bi := 0
	r.Rapid(t, "TestChannel", rounds, func(rt *rapid.T) {
		bi++
		var cases []chanCase
		for i := 0; i < per; i++ {
			c := chanCase{Max: int64(rapid.SampledFrom([]int{1024, 1024, 4096}).Draw(rt, "max"))}
			n := rapid.IntRange(1, 60).Draw(rt, "n")
			heavy := i < 2 // a sustained burst well beyond the writer's 500 KiB batch threshold
			if heavy {
				n = rapid.IntRange(1200, 1800).Draw(rt, "heavy")
			}
			total := 0
			for j := 0; j < n; j++ {
				s := rapid.OneOf(rapid.IntRange(0, 200), rapid.SampledFrom([]int{900, 940, 950, 960, 1000, 1100, 2100, 4000})).Draw(rt, "size")
				if heavy {
					s = 700 + j%300
				}
				c.Sizes = append(c.Sizes, s)
				total += s + 90
			}
			c.Burst = rapid.SampledFrom([]int{0, 0, (n + 1) / 2, (n + 2) / 3}).Draw(rt, "burst")
			c.Broken = rapid.IntRange(0, 9).Draw(rt, "broken") == 0
			fp := ""
			if int64(total) > c.Max || c.Broken {
				fp = vlib.JSON(c)
			}
			r.Case(fmt.Sprintf("channel/max=%d/broken=%v", c.Max, c.Broken), fp, func() interface{} { return c })
			cases = append(cases, c)
		}
		sub := filepath.Join(dir, fmt.Sprintf("b%d", bi))
		idx, err := checkChannels(sub, cases)
		os.RemoveAll(sub)
		if err != nil {
			if strings.HasPrefix(err.Error(), "infra:") {
				rt.Fatalf("%v", err)
			}
			r.Fail(rt, "TestChannel", cases[idx], "%v", err)
		}
	})
}

// ---- a steady trickle: events keep arriving less than one flush interval apart ----

type trickleCase struct {
	Max   int64 `json:"max"`
	GapMs int   `json:"gap_ms"` // pause between two events (the flush interval is 1000 ms)
	Pad   int   `json:"pad"`
}

// checkTrickle sends events GapMs apart and, while they keep coming, looks for event 0 in the
// log. The statement promises it "once the flush interval has passed"; the harness looks after
// 5 flush intervals and, before calling it a violation, again after 20.
func checkTrickle(dir string, cases []trickleCase) (int, error) {
	type inst struct {
		ch   pushers.Channel
		path string
	}
	insts := make([]inst, len(cases))
	for i, c := range cases {
		d := filepath.Join(dir, fmt.Sprintf("t%d", i))
		os.MkdirAll(d, 0755)
		p := filepath.Join(d, "events.log")
		mx := c.Max
		ch, err := filech.New(func(pc pushers.Channel) error {
			fb := pc.(*filech.FileBackend)
			fb.File = p
			fb.MaxSize = mx
			return nil
		})
		if err != nil {
			return i, fmt.Errorf("infra: %v", err)
		}
		insts[i] = inst{ch, p}
	}
	stop := make(chan struct{})
	var wg sync.WaitGroup
	sent := make([]int64, len(cases))
	for i, c := range cases {
		wg.Add(1)
		go func(i int, c trickleCase) {
			defer wg.Done()
			for j := 0; ; j++ {
				e := event.New(event.Category("c07"), event.Custom("id", j), event.Custom("p", strings.Repeat("y", c.Pad)))
				insts[i].ch.Send(e)
				atomic.StoreInt64(&sent[i], int64(j+1))
				select {
				case <-stop:
					return
				case <-time.After(time.Duration(c.GapMs) * time.Millisecond):
				}
			}
		}(i, c)
	}
	defer func() { close(stop); wg.Wait() }()
	missing := func() []int {
		var m []int
		for i, c := range cases {
			ids, _, _ := scanEvents(insts[i].path, c.Max)
			if ids[0] < 1 {
				m = append(m, i)
			}
		}
		return m
	}
	time.Sleep(5 * time.Second)
	m := missing()
	if len(m) == 0 {
		return -1, nil
	}
	time.Sleep(15 * time.Second)
	m = missing()
	if len(m) == 0 {
		return -1, nil
	}
	i := m[0]
	ids, desc, _ := scanEvents(insts[i].path, cases[i].Max)
	return i, fmt.Errorf("event 0 was accepted 20 s ago (flush interval 1 s) and is in no log file while %d later events arrived %d ms apart; lines on disk: %d; files=%v", atomic.LoadInt64(&sent[i])-1, cases[i].GapMs, len(ids), desc)
}

func TestTrickle(t *testing.T) {
	r := vlib.Open(prop)
	dir, _ := os.MkdirTemp("", "c07t")
	defer os.RemoveAll(dir)
	var tc trickleCase
	if vlib.ReplayCase("TestTrickle", &tc) {
		if _, err := checkTrickle(filepath.Join(dir, "r"), []trickleCase{tc}); err != nil {
			r.Violation(t, "TestTrickle", tc, err.Error())
		}
		return
	}
	r.Rule("steady trickle: one event every 20..2500 ms for 5 s (20 s before a verdict); the first event must be on disk while later ones keep arriving; non-trivial = gap shorter than the 1 s flush interval")
	per := r.Pick(40, 120)
	bi := 0
	r.Rapid(t, "TestTrickle", r.Pick(1, 4), func(rt *rapid.T) {
		bi++
		var cases []trickleCase
		for i := 0; i < per; i++ {
			c := trickleCase{
				Max:   int64(rapid.SampledFrom([]int{1024, 4096, 1 << 20}).Draw(rt, "max")),
				GapMs: rapid.OneOf(rapid.IntRange(20, 999), rapid.SampledFrom([]int{500, 900, 990, 1000, 1010, 1500, 2500})).Draw(rt, "gap"),
				Pad:   rapid.IntRange(0, 300).Draw(rt, "pad"),
			}
			fp := ""
			if c.GapMs < 1000 {
				fp = vlib.JSON(c)
			}
			r.Case(fmt.Sprintf("trickle/max=%d/gap<1s=%v", c.Max, c.GapMs < 1000), fp, func() interface{} { return c })
			cases = append(cases, c)
		}
		sub := filepath.Join(dir, fmt.Sprintf("b%d", bi))
		idx, err := checkTrickle(sub, cases)
		os.RemoveAll(sub)
		if err != nil {
			if strings.HasPrefix(err.Error(), "infra:") {
				rt.Fatalf("%v", err)
			}
			r.Fail(rt, "TestTrickle", cases[idx], "%v", err)
		}
	})
}
