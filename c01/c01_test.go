package c01

import (
	"fmt"
	"regexp"
	"strings"
	"sync"
	"testing"
	"time"

	"pgregory.net/rapid"

	"verif/svc"
	"verif/vlib"
)

const prop = "C01"

func TestMain(m *testing.M) { vlib.Main(m, prop) }

type connCase struct {
	Service string         `json:"service"`
	UDP     bool           `json:"udp,omitempty"`
	Units   []string       `json:"units_hex,omitempty"`
	SSH     *svc.SSHScript `json:"ssh,omitempty"`
	Seg     string         `json:"segmentation"` // units | single | dribble | cuts
	Cuts    []int          `json:"cuts,omitempty"`
	End     string         `json:"end"`
}

type scenario struct {
	Kind  string     `json:"kind"` // grammar | mutated | raw | ssh-client
	Note  string     `json:"note,omitempty"`
	Conns []connCase `json:"conns"`
	Order []int      `json:"order"`
}

func (c connCase) wire() svc.WireScript {
	w := svc.WireScript{Service: c.Service, UDP: c.UDP, End: c.End, SSH: c.SSH}
	var units [][]byte
	var stream []byte
	for _, u := range c.Units {
		b := vlib.UnHex(u)
		units = append(units, b)
		stream = append(stream, b...)
	}
	var steps []svc.Step
	switch {
	case c.UDP || c.Seg == "units":
		for _, u := range units {
			steps = append(steps, svc.Step{Data: u})
		}
	case c.Seg == "dribble":
		steps = svc.Dribble(stream)
	case c.Seg == "cuts":
		steps = svc.Segment(stream, c.Cuts)
	default:
		steps = []svc.Step{{Data: stream}}
	}
	for _, s := range steps {
		if len(s.Data) > 0 || c.UDP {
			w.Steps = append(w.Steps, svc.WireStep{D: vlib.Hex(s.Data)})
		}
	}
	return w
}

var (
	childMu sync.Mutex
	child   *svc.Child
)

func getChild() (*svc.Child, error) {
	childMu.Lock()
	defer childMu.Unlock()
	if child != nil && child.Alive() {
		return child, nil
	}
	if child != nil {
		child.Stop()
	}
	c, err := svc.StartChild(nil)
	if err != nil {
		return nil, err
	}
	child = c
	return c, nil
}

func dropChild() {
	childMu.Lock()
	if child != nil {
		child.Stop()
		child = nil
	}
	childMu.Unlock()
}

type outcome struct {
	nontrivial bool
	fatal      int
}

// culprit is returned when a failure is attributable to an earlier scenario.
type culprit struct {
	sc  scenario
	err error
}

func (c *culprit) Error() string { return c.err.Error() }

var history []scenario // scenarios the current child has served

func isInfra(err error) bool { return err != nil && strings.HasPrefix(err.Error(), "infra:") }

// runScenario makes the verdict a function of the scenario alone: a failure observed on
// a child that has served earlier scenarios is re-run on a fresh child; if it does not
// reproduce there, the earlier scenarios are re-run one by one on fresh children (each
// followed by an idle period and an empty probe scenario) to find the one that left the
// process damaged; if none does, the observation is recorded as flaky, not as a violation.
func runScenario(sc scenario) (outcome, error) {
	o, err := runOnce(sc)
	if err == nil || isInfra(err) {
		if err == nil {
			history = append(history, sc)
		}
		return o, err
	}
	if strings.HasPrefix(err.Error(), "inconclusive:") {
		dropChild()
		history = nil
		return o, nil
	}
	if len(history) == 0 {
		dropChild()
		return o, err
	}
	past := history
	history = nil
	dropChild()
	o2, err2 := runOnce(sc)
	if err2 != nil && !isInfra(err2) && !strings.HasPrefix(err2.Error(), "inconclusive:") {
		dropChild()
		return o2, err2
	}
	if len(past) > 60 {
		past = past[len(past)-60:]
	}
	for i := len(past) - 1; i >= 0; i-- {
		dropChild()
		if _, e := runOnce(past[i]); e != nil && !isInfra(e) && !strings.HasPrefix(e.Error(), "inconclusive:") {
			dropChild()
			return o, &culprit{past[i], e}
		}
		time.Sleep(400 * time.Millisecond)
		if _, e := runOnce(scenario{Kind: "probe-only"}); e != nil && !isInfra(e) && !strings.HasPrefix(e.Error(), "inconclusive:") {
			dropChild()
			return o, &culprit{past[i], fmt.Errorf("%v (observed during the idle period after the scenario)", e)}
		}
	}
	// not one scenario alone: an earlier scenario may have left state behind that makes this
	// one fatal (history). Try "earlier scenario, then this one" as a single scenario.
	if len(sc.Conns) > 0 {
		for i, tried := len(past)-1, 0; i >= 0 && tried < 15; i-- {
			if len(past[i].Conns) == 0 {
				continue
			}
			tried++
			pair := scenario{Kind: "history", Note: past[i].Note + sc.Note}
			pair.Conns = append(append([]connCase{}, past[i].Conns...), sc.Conns...)
			pair.Order = append([]int{}, past[i].Order...)
			for _, x := range sc.Order {
				pair.Order = append(pair.Order, x+len(past[i].Conns))
			}
			dropChild()
			if _, e := runOnce(pair); e != nil && !isInfra(e) && !strings.HasPrefix(e.Error(), "inconclusive:") {
				dropChild()
				return o, &culprit{pair, e}
			}
		}
	}
	dropChild()
	vlib.Open(prop).Flaky("failure not attributable to a single scenario (or a pair) on a fresh process: " + head(err.Error(), 1800))
	return o, nil
}

func runOnce(sc scenario) (outcome, error) {
	var o outcome
	c, err := getChild()
	if err != nil {
		return o, fmt.Errorf("infra: %v", err)
	}
	req := svc.Request{Op: "run", Order: sc.Order, WaitMs: 8000}
	for _, cc := range sc.Conns {
		req.Scripts = append(req.Scripts, cc.wire())
	}
	if len(sc.Conns) > 0 {
		resp, err := c.Do(req, 120*time.Second)
		if err != nil {
			return o, classify(err, "while handling the scenario")
		}
		for _, r := range resp.Conns {
			if r.Events > 0 || r.Replies > 0 || (r.Consumed > 0 && r.OutLen > 0) {
				o.nontrivial = true
			}
			o.fatal += r.Fatal
		}
	}
	// (1)+(2): alive and still serving
	pr, err := c.Do(svc.Request{Op: "probe"}, 60*time.Second)
	if err != nil {
		return o, classify(err, "on the probe connection after the scenario")
	}
	if !pr.OK {
		dropChild()
		return o, fmt.Errorf("process no longer serves new connections after the scenario: %s", pr.Err)
	}
	// (2b): the services the scenario talked to still serve well-formed new connections
	if err := checkHealth(c, sc); err != nil {
		if !isInfra(err) {
			dropChild()
		}
		return o, err
	}
	// (3): idle growth - the client is silent now
	m1, err := c.Do(svc.Request{Op: "mem"}, 30*time.Second)
	if err != nil {
		return o, classify(err, "while idle")
	}
	time.Sleep(40 * time.Millisecond)
	m2, err := c.Do(svc.Request{Op: "mem"}, 30*time.Second)
	if err != nil {
		return o, classify(err, "while idle")
	}
	if grew(m1.Stats.HeapAlloc, m2.Stats.HeapAlloc) > 4<<20 {
		// confirm with collections in between: monotone rise while nobody sends anything
		var samples []uint64
		for i := 0; i < 5; i++ {
			s, err := c.Do(svc.Request{Op: "stats"}, 60*time.Second)
			if err != nil {
				return o, classify(err, "while idle")
			}
			samples = append(samples, s.Stats.HeapInuse)
			time.Sleep(80 * time.Millisecond)
		}
		mono := true
		for i := 1; i < len(samples); i++ {
			if samples[i] <= samples[i-1] {
				mono = false
			}
		}
		if mono && samples[len(samples)-1]-samples[0] > 32<<20 {
			dropChild()
			return o, fmt.Errorf("memory keeps growing while the client is silent: heap in use after GC %v bytes over 400 ms", samples)
		}
	}
	return o, nil
}

func grew(a, b uint64) uint64 {
	if b > a {
		return b - a
	}
	return 0
}

func classify(err error, when string) error {
	switch e := err.(type) {
	case *svc.ErrDead:
		if m := hugeAlloc.FindStringSubmatch(e.Log); m != nil && len(m[1]) <= 10 {
			// (allocations of 10 GiB and more - 11+ digits - fail on ordinary hosts without
			// any guard and are reported below)
			// one giant (>= 1 GiB) allocation hit the address-space guard that protects the
			// sandbox; without the guard such an allocation is virtual and short-lived. The
			// guard is not the oracle: inconclusive, counted, not a violation.
			vlib.Open(prop).Label("guard-fired-on-single-huge-allocation", 1)
			return fmt.Errorf("inconclusive: address-space guard fired on a single %s-byte allocation", m[1])
		}
		if strings.Contains(e.Log, "cannot allocate memory") || strings.Contains(e.Log, "out of memory") {
			return fmt.Errorf("honeytrap process died %s (%s): ran out of memory: %s", when, e.How, head(e.Log, 600))
		}
		return fmt.Errorf("honeytrap process died %s (%s): %s", when, e.How, head(e.Log, 900))
	case *svc.ErrStuck:
		dropChild()
		return fmt.Errorf("honeytrap process stopped answering %s (hung or spinning)", when)
	}
	return fmt.Errorf("infra: %v", err)
}

var hugeAlloc = regexp.MustCompile(`cannot allocate (\d{10,})-byte block`)

func head(s string, n int) string {
	if len(s) > n {
		return s[:n] + "..."
	}
	return s
}

func hexUnits(u [][]byte) []string {
	out := make([]string, len(u))
	for i := range u {
		out[i] = vlib.Hex(u[i])
	}
	return out
}

func genConn(t *rapid.T, service string, kind string) (connCase, string) {
	c := connCase{Service: service}
	note := ""
	switch kind {
	case "raw":
		p := svc.PortOf(service)
		c.UDP = p.UDP && (!p.TCP || rapid.Bool().Draw(t, "udp"))
		c.Units = hexUnits(svc.RawBytes(t, 2048))
	default:
		tr := svc.GenTraffic(t, service)
		c.UDP = tr.UDP
		c.SSH = tr.SSH
		units := tr.Units
		if kind == "mutated" && tr.SSH == nil {
			units, note = svc.Mutate(t, units)
		}
		c.Units = hexUnits(units)
	}
	total := 0
	for _, u := range c.Units {
		total += len(u) / 2
	}
	c.Seg = rapid.SampledFrom([]string{"units", "single", "cuts", "dribble"}).Draw(t, "seg")
	if c.Seg == "dribble" && total > 300 {
		c.Seg = "cuts"
	}
	if c.Seg == "cuts" && total > 1 {
		for k := rapid.IntRange(1, 3).Draw(t, "ncuts"); k > 0; k-- {
			c.Cuts = append(c.Cuts, rapid.IntRange(1, total-1).Draw(t, "cut"))
		}
	}
	c.End = rapid.SampledFrom([]string{"close", "close", "close", "reset"}).Draw(t, "end")
	if !c.UDP && c.SSH == nil && rapid.IntRange(0, 7).Draw(t, "stays") == 0 {
		// the client stays connected and silent after a prefix of its dialogue (possibly
		// before its first byte): everything else must go on being served meanwhile
		c.Units = c.Units[:rapid.IntRange(0, len(c.Units)).Draw(t, "prefix")]
		c.Cuts = nil
		if c.Seg == "cuts" {
			c.Seg = "units"
		}
		c.End = "open"
	}
	return c, note
}

func genScenario(t *rapid.T) scenario {
	service := rapid.SampledFrom(svc.AllServices).Draw(t, "service")
	sc := scenario{Kind: rapid.SampledFrom([]string{"grammar", "grammar", "mutated", "mutated", "raw"}).Draw(t, "kind")}
	k := rapid.SampledFrom([]int{1, 1, 2, 3, 4}).Draw(t, "connections")
	for i := 0; i < k; i++ {
		c, note := genConn(t, service, sc.Kind)
		sc.Conns = append(sc.Conns, c)
		if note != "" {
			sc.Note += note
		}
	}
	// interleaving: one entry per step of each connection
	left := make([]int, k)
	total := 0
	for i, c := range sc.Conns {
		left[i] = len(c.wire().Steps)
		if left[i] == 0 {
			left[i] = 1
		}
		total += left[i]
	}
	if k == 1 {
		for i := 0; i < total; i++ {
			sc.Order = append(sc.Order, 0)
		}
		return sc
	}
	for len(sc.Order) < total {
		i := rapid.IntRange(0, k-1).Draw(t, "pick")
		if left[i] > 0 {
			left[i]--
			sc.Order = append(sc.Order, i)
		}
	}
	return sc
}

func excluded(r *vlib.Run, sc scenario) string {
	return ""
}

func TestScenarios(t *testing.T) {
	r := vlib.Open(prop)
	defer dropChild()
	var sc scenario
	if vlib.ReplayCase("TestScenarios", &sc) {
		if _, err := runScenario(sc); err != nil {
			if strings.HasPrefix(err.Error(), "infra:") {
				t.Fatalf("%v", err)
			}
			r.Violation(t, "TestScenarios", sc, err.Error())
		}
		return
	}
	r.Rule("24 director-less services (plus one port shared by cwmp, docker and http) in one lab child process running the real server; per case one service x {grammar dialogue, mutated dialogue (truncate, delete/duplicate/swap unit, bit flip, insert, boundary length fields, splice, 5-60x repeat), raw bytes with protocol magics} x segmentation {per unit, single write, random cuts, 1-byte dribble} x 1..4 concurrent connections to the same service instance with a drawn step interleaving, ended by close or reset, or (1 in 8) left open and silent after a prefix of the dialogue; ssh also through a real ssh client with generated channel/request payloads (incl. 1-3 byte and oversized length prefixes); oracle = child alive (no panic:/fatal error: banner, no signal), echo probe served, the services used by the scenario still serve reference dialogues on new connections like a fresh process (>= half its reply bytes and events), heap not growing while the client is silent; recovered per-connection panics are allowed; non-trivial = the service accepted at least one unit beyond its greeting (>=1 event or reply); distinct by scenario")
	if refs, err := healthBaselines(); err == nil {
		var parts []string
		for _, s := range svc.AllServices {
			parts = append(parts, fmt.Sprintf("%s:%d", s, len(refs[s])))
		}
		r.Note("reference dialogues per service (kept when a fresh process answers them): %s", strings.Join(parts, " "))
	}
	r.Rapid(t, "TestScenarios", r.Pick(450, 8000), func(rt *rapid.T) {
		sc := genScenario(rt)
		if id := excluded(r, sc); id != "" {
			r.Excluded(id)
			rt.Skip("known finding excluded")
		}
		o, err := runScenario(sc)
		fp := ""
		if o.nontrivial {
			fp = vlib.JSON(sc)
		}
		label := fmt.Sprintf("scenario/%s/%s/conns=%d", sc.Conns[0].Service, sc.Kind, len(sc.Conns))
		r.Case(label, fp, func() interface{} {
			return map[string]interface{}{"service": sc.Conns[0].Service, "kind": sc.Kind, "note": sc.Note, "conns": len(sc.Conns), "seg": sc.Conns[0].Seg, "first_unit_hex": first(sc.Conns[0].Units)}
		})
		if o.fatal > 0 {
			r.Label("recovered-per-connection-panics", int64(o.fatal))
		}
		if err != nil {
			if strings.HasPrefix(err.Error(), "infra:") {
				rt.Fatalf("%v", err)
			}
			if cu, ok := err.(*culprit); ok {
				r.Fail(rt, "TestScenarios", cu.sc, "%v", cu.err)
			}
			r.Fail(rt, "TestScenarios", sc, "%v", err)
		}
	})
}

func first(u []string) string {
	if len(u) == 0 {
		return ""
	}
	if len(u[0]) > 80 {
		return u[0][:80]
	}
	return u[0]
}

// Many sources at once: every datagram is handled in its own goroutine, so K sources
// sending together exercise K concurrent handlers of the same service instance.
func TestManySources(t *testing.T) {
	r := vlib.Open(prop)
	defer dropChild()
	if vlib.Replaying() {
		return // failures of this test are reported (and replayed) as TestScenarios cases
	}
	r.Rule("many-sources: 24..64 sources each sending 1..3 grammar datagrams (or short TCP dialogues) to the same service at the same time, round-robin interleaved; same oracle")
	r.Rapid(t, "TestScenarios", r.Pick(25, 400), func(rt *rapid.T) {
		service := rapid.SampledFrom([]string{"tftp", "tftp", "memcached", "snmp", "counterstrike", "dns", "echo", "ntp", "redis", "ftp", "ldap", "smtp"}).Draw(rt, "service")
		k := rapid.IntRange(24, 64).Draw(rt, "sources")
		sc := scenario{Kind: "many-sources"}
		maxSteps := 0
		for i := 0; i < k; i++ {
			c, _ := genConn(rt, service, "grammar")
			if c.UDP {
				c.Seg = "units"
				if len(c.Units) > 3 {
					c.Units = c.Units[:3]
				}
			}
			sc.Conns = append(sc.Conns, c)
			if n := len(c.wire().Steps); n > maxSteps {
				maxSteps = n
			}
		}
		for s := 0; s < maxSteps; s++ {
			for i := range sc.Conns {
				if s < len(sc.Conns[i].wire().Steps) {
					sc.Order = append(sc.Order, i)
				}
			}
		}
		o, err := runScenario(sc)
		fp := ""
		if o.nontrivial {
			fp = vlib.JSON(sc)
		}
		r.Case(fmt.Sprintf("many-sources/%s", service), fp, func() interface{} {
			return map[string]interface{}{"service": service, "sources": k, "steps": len(sc.Order)}
		})
		if err != nil {
			if strings.HasPrefix(err.Error(), "infra:") {
				rt.Fatalf("%v", err)
			}
			if cu, ok := err.(*culprit); ok {
				r.Fail(rt, "TestScenarios", cu.sc, "%v", cu.err)
			}
			r.Fail(rt, "TestScenarios", sc, "%v", err)
		}
	})
}
