package c08

import (
	"bytes"
	"fmt"
	"net"
	"strings"
	"testing"
	"time"

	"pgregory.net/rapid"

	"verif/lab"
	"verif/vlib"
)

// ---------------------------------------------------------------- clients that do not speak first
//
// The statement hands the connection to "the port's only service, or else the first service in
// configured order that either has no payload detector or ...": a detector-less service that is
// reached before any detector needs no client byte at all. Every other test of this package
// lets the client write its payload right after connecting, so nothing observes whether the
// selection WAITS for a byte it does not need. Here the client behaviour is the generated
// dimension: it half-closes or aborts without having sent anything, or it waits until the
// chosen service has acted (the stubs can write a greeting, as server-speaks-first protocols
// do) and only then sends its payload / half-closes. The port's service list is one whose
// selection does not depend on client bytes (a single service of either kind, or a
// detector-less head followed by further services, detectors among them); lists that start
// with a detector are left out because the statement does not say what a detector is asked
// when there are no first bytes.
//
// No verdict depends on a wait expiring: "no service" is only reported once the server itself
// has closed the connection (or the client has read EOF) with no stub invoked; when neither an
// invocation nor the close is seen within the (generous) bound the case is inconclusive.

type silentCase struct {
	Specific bool   `json:"specific"`
	Services []svc  `json:"services"`
	Decoys   int    `json:"decoys"`
	Greeting bool   `json:"greeting"` // every stub writes "220 <name>\r\n" when it is invoked
	Client   string `json:"client"`   // eof | reset | wait-send | wait-eof
	Payload  string `json:"payload_hex,omitempty"`
	Cuts     []int  `json:"cuts,omitempty"`
	Socket   bool   `json:"socket"`
}

func greetingOf(i int) string { return fmt.Sprintf("220 t%d ready\r\n", i) }

func (c silentCase) toml(id string, base int) string {
	var b strings.Builder
	if c.Socket {
		fmt.Fprintf(&b, "[listener]\ntype=\"socket\"\n\n")
	} else {
		fmt.Fprintf(&b, "[listener]\ntype=\"verif-mem\"\nid=%q\n\n", id)
	}
	var names []string
	for i, s := range c.Services {
		n := fmt.Sprintf("t%d", i)
		names = append(names, fmt.Sprintf("%q", n))
		fmt.Fprintf(&b, "[service.%s]\ntype=\"verif-%s\"\nid=%q\nprefix=%q\n", n, s.Kind, id+"-"+n, s.Prefix)
		if c.Greeting {
			fmt.Fprintf(&b, "reply=%q\n", greetingOf(i))
		}
		b.WriteString("\n")
	}
	for i := 0; i < c.Decoys; i++ {
		fmt.Fprintf(&b, "[service.d%d]\ntype=\"verif-plain\"\nid=%q\nreply=\"220 decoy\\r\\n\"\n\n", i, fmt.Sprintf("%s-d%d", id, i))
	}
	host := ""
	if c.Specific || c.Socket {
		host = "127.0.0.1:"
	}
	fmt.Fprintf(&b, "[[port]]\nport=\"tcp/%s%d\"\nservices=[%s]\n\n", host, base, strings.Join(names, ", "))
	for i := 0; i < c.Decoys; i++ {
		switch i {
		case 0: // same port number, other protocol
			fmt.Fprintf(&b, "[[port]]\nport=\"udp/%s%d\"\nservices=[\"d0\"]\n\n", host, base)
		case 1: // neighbouring port, same protocol
			fmt.Fprintf(&b, "[[port]]\nport=\"tcp/%s%d\"\nservices=[\"d1\"]\n\n", host, base+1)
		}
	}
	return b.String()
}

// byteFree: the statement's rule picks service 0 whatever the client sends (or does not send).
func byteFree(services []svc) bool {
	return len(services) == 1 || (len(services) > 1 && services[0].Kind == "plain")
}

const silentBound = 45 * time.Second

func checkSilent(c silentCase) error {
	if !byteFree(c.Services) {
		return fmt.Errorf("infra: case outside the generated class (selection depends on client bytes)")
	}
	id := lab.NextID()
	base := targetPort
	if c.Socket {
		var err error
		base, err = freePort("tcp")
		if err != nil {
			return fmt.Errorf("infra: %v", err)
		}
	}
	var srv *lab.Server
	var err error
	if c.Socket {
		srv, err = lab.StartSocket(id, c.toml(id, base))
	} else {
		srv, err = lab.Start(id, c.toml(id, base), false)
	}
	if err != nil {
		return fmt.Errorf("infra: %v", err)
	}
	defer srv.Stop()
	ids := []string{id}
	for i := range c.Services {
		ids = append(ids, fmt.Sprintf("%s-t%d", id, i))
	}
	for i := 0; i < c.Decoys; i++ {
		ids = append(ids, fmt.Sprintf("%s-d%d", id, i))
	}
	defer lab.Forget(ids...)

	// number of Handle calls so far on the stubs of the target port
	invoked := func() (int, error) {
		n := 0
		for i := range c.Services {
			st := lab.GetStub(fmt.Sprintf("%s-t%d", id, i))
			if st == nil {
				return 0, fmt.Errorf("infra: stub t%d missing", i)
			}
			n += len(st.Invocations())
		}
		return n, nil
	}

	var payload []byte
	if c.Client == "wait-send" {
		payload = vlib.UnHex(c.Payload)
	}
	chunks := selCase{Payload: vlib.Hex(payload), Cuts: c.Cuts}.chunks()
	waits := c.Client == "wait-send" || c.Client == "wait-eof"
	greet := ""
	if c.Greeting {
		greet = greetingOf(0)
	}
	var output []byte   // what the client received
	outputKnown := true // false when the client went away without reading

	if c.Socket {
		addr := fmt.Sprintf("127.0.0.1:%d", base)
		conn, err := net.DialTimeout("tcp", addr, 3*time.Second)
		if err != nil {
			return fmt.Errorf("infra: dial %s: %v", addr, err)
		}
		defer conn.Close()
		if tc, ok := conn.(*net.TCPConn); ok {
			tc.SetNoDelay(true)
		}
		eof := false
		buf := make([]byte, 256)
		// readSome polls the socket for a moment: data is collected, EOF / an error ends the stream
		readSome := func(d time.Duration) {
			conn.SetReadDeadline(time.Now().Add(d))
			n, rerr := conn.Read(buf)
			output = append(output, buf[:n]...)
			if rerr != nil && !isTimeout(rerr) {
				eof = true
			}
		}
		if waits {
			// say nothing until a service has acted (seen by the harness, and - when the stubs
			// greet - by the client itself) or the server has given the connection up
			start := time.Now()
			for {
				n, err := invoked()
				if err != nil {
					return err
				}
				if n > 0 && len(output) >= len(greet) {
					break
				}
				if eof {
					break
				}
				if time.Since(start) > silentBound {
					return fmt.Errorf("inconclusive: neither a service invocation nor the end of the connection within %v", silentBound)
				}
				readSome(15 * time.Millisecond)
			}
			if !eof {
				for i, ch := range chunks {
					if i == 1 {
						time.Sleep(20 * time.Millisecond)
					}
					conn.Write(ch)
				}
			} else {
				payload = nil // the client never got to send
			}
		}
		conn.(*net.TCPConn).CloseWrite()
		start := time.Now()
		for !eof {
			if time.Since(start) > silentBound {
				return fmt.Errorf("server did not close the connection within %v of the client's EOF", silentBound)
			}
			readSome(time.Second)
		}
	} else {
		conn := srv.L.DialTCP(&net.TCPAddr{IP: net.IPv4(127, 0, 0, 1), Port: base}, &net.TCPAddr{IP: net.IPv4(203, 0, 113, 5), Port: 40123})
		gaveUp := false
		if waits {
			start := time.Now()
			for spins := 0; ; spins++ {
				closed := conn.IsClosed() // sampled BEFORE the invocations: closed-and-still-none is then final
				n, err := invoked()
				if err != nil {
					return err
				}
				if n > 0 {
					break
				}
				if closed {
					gaveUp = true
					break
				}
				if time.Since(start) > silentBound {
					return fmt.Errorf("inconclusive: neither a service invocation nor the end of the connection within %v", silentBound)
				}
				if spins < 300 {
					time.Sleep(time.Millisecond)
				} else {
					time.Sleep(10 * time.Millisecond)
				}
			}
			if !gaveUp && greet != "" && !conn.WaitOutput(len(greet), silentBound) && !conn.IsClosed() {
				return fmt.Errorf("inconclusive: service invoked, its greeting did not arrive within %v", silentBound)
			}
		}
		switch {
		case gaveUp:
			payload = nil
		case c.Client == "reset":
			conn.Reset()
			outputKnown = false
		default:
			for _, ch := range chunks {
				conn.Send(ch)
			}
			conn.CloseWrite()
		}
		if !conn.WaitClosed(silentBound) {
			return fmt.Errorf("server did not close the connection within %v of the client's EOF / abort", silentBound)
		}
		output = conn.Output()
	}

	// verdict: the server has closed the connection, so whatever Handle call there was has returned
	what := fmt.Sprintf("client %q (sends nothing before a service has acted) on services=%s", c.Client, vlib.JSON(c.Services))
	deadline := time.Now().Add(10 * time.Second)
	for {
		chosen, count := -1, 0
		var inv lab.Invocation
		for i := range c.Services {
			st := lab.GetStub(fmt.Sprintf("%s-t%d", id, i))
			if st == nil {
				return fmt.Errorf("infra: stub t%d missing", i)
			}
			for _, v := range st.Invocations() {
				count++
				chosen = i
				inv = v
			}
		}
		for i := 0; i < c.Decoys; i++ {
			st := lab.GetStub(fmt.Sprintf("%s-d%d", id, i))
			if st != nil && len(st.Invocations()) > 0 {
				return fmt.Errorf("%s: a service configured only for another port entry (decoy %d) was handed the connection", what, i)
			}
		}
		if count > 1 {
			return fmt.Errorf("%s: the connection was handed to %d services", what, count)
		}
		if count == 0 {
			return fmt.Errorf("%s: the server closed the connection and NO service was invoked; service 0 is %s and must get the connection without any client byte", what, map[bool]string{true: "the port's only service", false: "detector-less and first in order"}[len(c.Services) == 1])
		}
		if !inv.Done {
			if time.Now().After(deadline) {
				return fmt.Errorf("inconclusive: chosen service still reading after the connection was closed")
			}
			time.Sleep(time.Millisecond)
			continue
		}
		if chosen != 0 {
			return fmt.Errorf("%s: connection was handed to service %d; the selection rule names service 0", what, chosen)
		}
		if !bytes.Equal(inv.Data, payload) {
			return fmt.Errorf("%s: service 0 read %d bytes %q, client sent %d bytes %q (stream not intact)", what, len(inv.Data), trunc(inv.Data), len(payload), trunc(payload))
		}
		// the client's view: bytes from the chosen service only
		if outputKnown && string(output) != greet {
			return fmt.Errorf("%s: client received %q, the chosen service 0 wrote %q (another service wrote to the connection, or the greeting was lost)", what, trunc(output), greet)
		}
		if !outputKnown && len(output) > 0 && string(output) != greet {
			return fmt.Errorf("%s: client received %q, the chosen service 0 writes %q", what, trunc(output), greet)
		}
		return nil
	}
}

func genSilent(t *rapid.T, socket bool) silentCase {
	c := silentCase{Socket: socket}
	c.Specific = rapid.Bool().Draw(t, "specific")
	n := rapid.SampledFrom([]int{1, 2, 2, 2, 3, 3, 4}).Draw(t, "nsvc")
	for i := 0; i < n; i++ {
		kind := rapid.IntRange(0, 2).Draw(t, "kind")
		if n > 1 && i == 0 {
			kind = 0 // several services: the head is detector-less (selection independent of client bytes)
		}
		if kind == 0 {
			c.Services = append(c.Services, svc{Kind: "plain"})
		} else {
			c.Services = append(c.Services, svc{Kind: "detect", Prefix: rapid.SampledFrom(prefixes).Draw(t, "prefix")})
		}
	}
	c.Decoys = rapid.IntRange(0, 2).Draw(t, "decoys")
	c.Greeting = rapid.IntRange(0, 3).Draw(t, "greeting") != 0
	modes := []string{"eof", "reset", "wait-send", "wait-send", "wait-eof"}
	if socket {
		// a socket client that goes away without reading has no signal for "the server is done"
		modes = []string{"eof", "wait-send", "wait-send", "wait-eof"}
	}
	c.Client = rapid.SampledFrom(modes).Draw(t, "client")
	if c.Client == "wait-send" {
		head := rapid.SampledFrom(heads).Draw(t, "head")
		tailLen := rapid.SampledFrom([]int{0, 0, 1, 7, 100, 1019, 1024, 1500}).Draw(t, "tail")
		tail := make([]byte, tailLen)
		for i := range tail {
			tail[i] = byte('a' + i%23)
		}
		p := append([]byte(head), tail...)
		c.Payload = vlib.Hex(p)
		switch rapid.IntRange(0, 2).Draw(t, "cutkind") {
		case 0:
		case 1:
			c.Cuts = []int{rapid.IntRange(1, max(1, min(len(p), 8))).Draw(t, "cut")}
		default:
			c.Cuts = []int{1, 2, 3}
		}
	}
	return c
}

// non-trivial: several services, and behind the detector-less head there is a detector
// (an implementation that asks detectors has something to ask - and nothing to show them).
func silentNontrivial(c silentCase) bool {
	if len(c.Services) < 2 {
		return false
	}
	for _, s := range c.Services[1:] {
		if s.Kind == "detect" {
			return true
		}
	}
	return false
}

func runSilent(t *testing.T, name string, socket bool, checks int) {
	r := vlib.Open(prop)
	var sc silentCase
	if vlib.ReplayCase(name, &sc) {
		if err := checkSilent(sc); err != nil && !strings.HasPrefix(err.Error(), "inconclusive:") {
			r.Violation(t, name, sc, err.Error())
		}
		return
	}
	r.Rapid(t, name, checks, func(rt *rapid.T) {
		c := genSilent(rt, socket)
		fp := ""
		if silentNontrivial(c) {
			fp = vlib.JSON(c)
		}
		tr := "mem"
		if socket {
			tr = "socket"
		}
		r.Case(fmt.Sprintf("silent/%s/%s/services=%d", tr, c.Client, len(c.Services)), fp, func() interface{} { return c })
		if err := checkSilent(c); err != nil {
			if strings.HasPrefix(err.Error(), "infra:") {
				rt.Fatalf("%v", err)
			}
			if strings.HasPrefix(err.Error(), "inconclusive:") {
				r.Label("inconclusive/silent-"+tr, 1)
				return
			}
			r.Fail(rt, name, c, "%v", err)
		}
	})
}

func TestSelectSilentMem(t *testing.T) {
	r := vlib.Open(prop)
	r.Rule("clients that do not speak first: tcp port (wildcard or specific address, 0..2 decoy entries) whose service list is a single stub of either kind or 2..4 stubs with a detector-less head followed by detector-less / prefix-detector stubs, stubs greeting or mute; the client half-closes or aborts without sending, or waits until a service has acted (invocation seen, greeting received) and then sends a payload (matching none/one/several of the later detectors; single write, early cut, 1-byte dribble) or half-closes; oracle = service 0 is invoked without any client byte, reads exactly what the client sent afterwards (possibly nothing), is the only one invoked and the only one that wrote to the client; 'no service' is judged only after the server closed the connection; non-trivial = a detector follows the detector-less head")
	runSilent(t, "TestSelectSilentMem", false, r.Pick(500, 5000))
}

func TestSelectSilentSocket(t *testing.T) {
	r := vlib.Open(prop)
	runSilent(t, "TestSelectSilentSocket", true, r.Pick(8, 40))
}
