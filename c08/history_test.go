package c08

import (
	"bytes"
	"fmt"
	"net"
	"strings"
	"testing"
	"time"

	"pgregory.net/rapid"

	"verif/lab"
	"verif/vlib"
)

// ---------------------------------------------------------------- histories on one server instance
//
// The statement quantifies over port tables of up to 3 ports (tcp/udp, wildcard or specific
// address) and says "ports match on protocol, port number and address". TestSelectMem and
// TestSelectSocket start a fresh server for every connection and TestSelectConcurrent uses one
// port of one protocol, so none of them sees what a server does with the SECOND and later
// connections when several port entries are alive - in particular entries that share the port
// number across protocols. Here one server instance gets a port table over {tcp,udp} x {P,P+1}
// (biased towards tcp/P and udp/P both present with different service lists, or P configured
// for one protocol only) and a sequence of connections, one after the other, whose protocol /
// port / address vary from step to step. Every connection is judged on its own by the same
// reference rule (acceptable()) applied to the service list of the one port entry that matches
// it on protocol, port and address.

type histPort struct {
	Proto    string `json:"proto"` // tcp | udp
	Off      int    `json:"off"`   // port number = base + off
	Specific bool   `json:"specific"`
	Services []svc  `json:"services"`
}

type histStep struct {
	Proto   string `json:"proto"`
	Off     int    `json:"off"`
	Other   bool   `json:"other_addr,omitempty"` // in-memory only: local address 127.0.0.9 instead of 127.0.0.1
	Payload string `json:"payload_hex"`
	Cuts    []int  `json:"cuts,omitempty"`
}

type histCase struct {
	Ports  []histPort `json:"ports"` // at most one entry per (proto, off)
	Steps  []histStep `json:"steps"`
	Socket bool       `json:"socket"`
}

// entry returns the index of the port entry the statement's matching rule selects for a step, or -1.
func (c histCase) entry(s histStep) int {
	for i, p := range c.Ports {
		if p.Proto != s.Proto || p.Off != s.Off {
			continue
		}
		if s.Other && (p.Specific || c.Socket) {
			continue
		}
		return i
	}
	return -1
}

func (c histCase) toml(id string, base int) string {
	var b strings.Builder
	if c.Socket {
		fmt.Fprintf(&b, "[listener]\ntype=\"socket\"\n\n")
	} else {
		fmt.Fprintf(&b, "[listener]\ntype=\"verif-mem\"\nid=%q\n\n", id)
	}
	for pi, p := range c.Ports {
		for si, s := range p.Services {
			n := fmt.Sprintf("p%ds%d", pi, si)
			fmt.Fprintf(&b, "[service.%s]\ntype=\"verif-%s\"\nid=%q\nprefix=%q\n\n", n, s.Kind, id+"-"+n, s.Prefix)
		}
	}
	for pi, p := range c.Ports {
		var names []string
		for si := range p.Services {
			names = append(names, fmt.Sprintf("%q", fmt.Sprintf("p%ds%d", pi, si)))
		}
		host := ""
		if p.Specific || c.Socket {
			host = "127.0.0.1:"
		}
		fmt.Fprintf(&b, "[[port]]\nport=\"%s/%s%d\"\nservices=[%s]\n\n", p.Proto, host, base+p.Off, strings.Join(names, ", "))
	}
	return b.String()
}

func (c histCase) stubIDs(id string) []string {
	ids := []string{id}
	for pi, p := range c.Ports {
		for si := range p.Services {
			ids = append(ids, fmt.Sprintf("%s-p%ds%d", id, pi, si))
		}
	}
	return ids
}

type histInv struct {
	port, svc int
	inv       lab.Invocation
}

// invocationsFrom returns every Handle call, on any stub of the case, whose peer is remote.
func (c histCase) invocationsFrom(id, remote string) ([]histInv, error) {
	var out []histInv
	for pi, p := range c.Ports {
		for si := range p.Services {
			st := lab.GetStub(fmt.Sprintf("%s-p%ds%d", id, pi, si))
			if st == nil {
				return nil, fmt.Errorf("infra: stub p%ds%d missing", pi, si)
			}
			for _, inv := range st.Invocations() {
				if inv.Remote == remote {
					out = append(out, histInv{pi, si, inv})
				}
			}
		}
	}
	return out, nil
}

func checkHistory(c histCase) error {
	id := lab.NextID()
	base := targetPort
	if c.Socket {
		var err error
		base, err = freePort("tcp")
		if err != nil {
			return fmt.Errorf("infra: %v", err)
		}
	}
	var srv *lab.Server
	var err error
	if c.Socket {
		srv, err = lab.StartSocket(id, c.toml(id, base))
	} else {
		srv, err = lab.Start(id, c.toml(id, base), false)
	}
	if err != nil {
		return fmt.Errorf("infra: %v", err)
	}
	defer srv.Stop()
	defer lab.Forget(c.stubIDs(id)...)

	// client sockets stay open until the end of the case so that no ephemeral port (the
	// key that attributes an invocation to its step) is used twice within one case
	var socks []net.Conn
	defer func() {
		for _, s := range socks {
			s.Close()
		}
	}()

	remotes := make([]string, len(c.Steps))
	firstLens := make([]int, len(c.Steps))
	for i, s := range c.Steps {
		payload := vlib.UnHex(s.Payload)
		chunks := selCase{Payload: s.Payload, Cuts: s.Cuts}.chunks()
		firstLens[i] = len(payload)
		if s.Proto == "tcp" && len(chunks) > 0 {
			firstLens[i] = len(chunks[0])
		}
		e := c.entry(s)
		localIP := net.IPv4(127, 0, 0, 1)
		if s.Other {
			localIP = net.IPv4(127, 0, 0, 9)
		}
		port := base + s.Off
		switch {
		case c.Socket && s.Proto == "tcp":
			addr := fmt.Sprintf("127.0.0.1:%d", port)
			conn, err := net.DialTimeout("tcp", addr, 3*time.Second)
			if err != nil {
				if e < 0 || len(c.Ports[e].Services) == 0 {
					continue // nothing listens there (a port without services is not bound): refused, nobody can see it
				}
				return fmt.Errorf("infra: dial %s: %v", addr, err)
			}
			socks = append(socks, conn)
			remotes[i] = conn.LocalAddr().String()
			if tc, ok := conn.(*net.TCPConn); ok {
				tc.SetNoDelay(true)
			}
			for k, ch := range chunks {
				if k == 1 {
					time.Sleep(40 * time.Millisecond)
				}
				conn.Write(ch)
			}
			conn.(*net.TCPConn).CloseWrite()
			conn.SetReadDeadline(time.Now().Add(45 * time.Second))
			buf := make([]byte, 64)
			_, rerr := conn.Read(buf)
			if rerr == nil || isTimeout(rerr) {
				return fmt.Errorf("step %d: server did not close the connection within 45s of the client's EOF", i)
			}
		case c.Socket:
			conn, err := net.Dial("udp", fmt.Sprintf("127.0.0.1:%d", port))
			if err != nil {
				return fmt.Errorf("infra: %v", err)
			}
			socks = append(socks, conn)
			remotes[i] = conn.LocalAddr().String()
			conn.Write(payload)
		case s.Proto == "tcp":
			remote := &net.TCPAddr{IP: net.IPv4(203, 0, 113, 5), Port: 40100 + i}
			remotes[i] = remote.String()
			conn := srv.L.DialTCP(&net.TCPAddr{IP: localIP, Port: port}, remote)
			for _, ch := range chunks {
				conn.Send(ch)
			}
			conn.CloseWrite()
			if !conn.WaitClosed(45 * time.Second) {
				return fmt.Errorf("step %d: server did not close the connection within 45s of the client's EOF", i)
			}
		default:
			remote := &net.UDPAddr{IP: net.IPv4(203, 0, 113, 5), Port: 40100 + i}
			remotes[i] = remote.String()
			srv.L.SendUDP(&net.UDPAddr{IP: localIP, Port: port}, remote, payload)
		}
		// The steps are a history, not a race: let this connection's selection finish before
		// the next one arrives. A stream has been closed by the server at this point; a
		// datagram has no close signal, so wait for the service the rule names (when it names
		// one for every admissible view) and otherwise just give the server a moment - the
		// verdict below does not depend on how long that moment was.
		if s.Proto == "udp" {
			needs := e >= 0 && !acceptable(selCase{Services: c.Ports[e].Services, Payload: s.Payload}, firstLens[i])[-1]
			deadline := time.Now().Add(10 * time.Second)
			for spins := 0; ; spins++ {
				invs, err := c.invocationsFrom(id, remotes[i])
				if err != nil {
					return err
				}
				if len(invs) > 0 && invs[0].inv.Done {
					break
				}
				if len(invs) == 0 && !needs && spins >= 2 {
					break
				}
				if time.Now().After(deadline) {
					break
				}
				time.Sleep(time.Millisecond)
			}
		}
	}

	// verdict per connection
	for i, s := range c.Steps {
		if remotes[i] == "" {
			continue
		}
		payload := vlib.UnHex(s.Payload)
		e := c.entry(s)
		allowed := map[int]bool{-1: true}
		if e >= 0 {
			allowed = acceptable(selCase{Services: c.Ports[e].Services, Payload: s.Payload}, firstLens[i])
		}
		deadline := time.Now().Add(10 * time.Second)
		for {
			invs, err := c.invocationsFrom(id, remotes[i])
			if err != nil {
				return err
			}
			if len(invs) > 1 {
				return fmt.Errorf("step %d (%s to port+%d): the connection was handed to %d services", i, s.Proto, s.Off, len(invs))
			}
			if len(invs) == 1 && !invs[0].inv.Done || len(invs) == 0 && !allowed[-1] {
				if time.Now().Before(deadline) {
					time.Sleep(time.Millisecond)
					continue
				}
				if len(invs) == 1 {
					return fmt.Errorf("step %d: chosen service never finished reading", i)
				}
				if c.Socket && s.Proto == "udp" {
					return fmt.Errorf("inconclusive: a datagram was not delivered by the kernel (or no service was chosen for it)")
				}
			}
			what := fmt.Sprintf("step %d of %d (%s to port+%d%s, matching port entry %d)", i, len(c.Steps), s.Proto, s.Off, map[bool]string{true: " on another address", false: ""}[s.Other], e)
			if len(invs) == 0 {
				if !allowed[-1] {
					return fmt.Errorf("%s: no service was invoked; the selection rule allows %v for services=%s first-chunk=%d payload=%q; earlier steps: %s", what, keys(allowed), vlib.JSON(c.Ports[e].Services), firstLens[i], trunc(payload), c.earlier(i))
				}
				break
			}
			iv := invs[0]
			if iv.port != e {
				return fmt.Errorf("%s: the connection was handed to service %d of port entry %d (%s port+%d), which does not match it on protocol, port number and address; earlier steps: %s", what, iv.svc, iv.port, c.Ports[iv.port].Proto, c.Ports[iv.port].Off, c.earlier(i))
			}
			if !allowed[iv.svc] {
				return fmt.Errorf("%s: connection was handed to service %d; the selection rule allows %v (-1 = none) for services=%s first-chunk=%d payload=%q", what, iv.svc, keys(allowed), vlib.JSON(c.Ports[e].Services), firstLens[i], trunc(payload))
			}
			if !bytes.Equal(iv.inv.Data, payload) {
				return fmt.Errorf("%s: service %d read %d bytes %q, client sent %d bytes %q (stream not intact)", what, iv.svc, len(iv.inv.Data), trunc(iv.inv.Data), len(payload), trunc(payload))
			}
			break
		}
	}
	return nil
}

func (c histCase) earlier(i int) string {
	var o []string
	for _, s := range c.Steps[:i] {
		o = append(o, fmt.Sprintf("%s+%d", s.Proto, s.Off))
	}
	return "[" + strings.Join(o, " ") + "]"
}

func genServices(t *rapid.T, maxN int) []svc {
	var out []svc
	n := rapid.SampledFrom([]int{0, 1, 1, 2, 2, 2, 3, 4}).Draw(t, "nsvc")
	if n > maxN {
		n = maxN
	}
	for i := 0; i < n; i++ {
		if rapid.IntRange(0, 2).Draw(t, "kind") == 0 {
			out = append(out, svc{Kind: "plain"})
		} else {
			out = append(out, svc{Kind: "detect", Prefix: rapid.SampledFrom(prefixes).Draw(t, "prefix")})
		}
	}
	return out
}

func genHistory(t *rapid.T, socket bool) histCase {
	c := histCase{Socket: socket}
	// port table: subsets of {tcp,udp} x {P, P+1} of size 1..3, the shared number P first
	slots := []histPort{{Proto: "tcp", Off: 0}, {Proto: "udp", Off: 0}, {Proto: "tcp", Off: 1}, {Proto: "udp", Off: 1}}
	weights := []int{80, 80, 25, 25}
	for i, sl := range slots {
		if len(c.Ports) == 3 {
			break
		}
		if rapid.IntRange(0, 99).Draw(t, "has") < weights[i] {
			sl.Specific = rapid.Bool().Draw(t, "specific")
			sl.Services = genServices(t, 4)
			c.Ports = append(c.Ports, sl)
		}
	}
	if len(c.Ports) == 0 {
		c.Ports = append(c.Ports, histPort{Proto: rapid.SampledFrom([]string{"tcp", "udp"}).Draw(t, "proto0"), Services: genServices(t, 4)})
	}
	n := rapid.IntRange(1, 6).Draw(t, "steps")
	for i := 0; i < n; i++ {
		var s histStep
		if socket {
			// only configured targets exist on real sockets
			p := c.Ports[rapid.IntRange(0, len(c.Ports)-1).Draw(t, "target")]
			s.Proto, s.Off = p.Proto, p.Off
		} else {
			s.Proto = rapid.SampledFrom([]string{"tcp", "udp"}).Draw(t, "proto")
			s.Off = rapid.SampledFrom([]int{0, 0, 0, 0, 0, 1, 1, 2}).Draw(t, "off")
			s.Other = rapid.IntRange(0, 7).Draw(t, "other") == 0
		}
		head := rapid.SampledFrom(heads).Draw(t, "head")
		tailLen := rapid.SampledFrom([]int{0, 0, 0, 1, 7, 100, 1019, 1024, 1500}).Draw(t, "tail")
		tail := make([]byte, tailLen)
		for k := range tail {
			tail[k] = byte('a' + (k+i)%23)
		}
		p := append([]byte(head), tail...)
		if len(p) == 0 && s.Proto == "tcp" {
			p = []byte("Q")
		}
		s.Payload = vlib.Hex(p)
		if s.Proto == "tcp" {
			switch rapid.IntRange(0, 3).Draw(t, "cutkind") {
			case 0, 1:
			case 2:
				s.Cuts = []int{rapid.IntRange(1, max(1, min(len(p), 8))).Draw(t, "cut")}
			default:
				s.Cuts = []int{1, 2, 3}
			}
		}
		c.Steps = append(c.Steps, s)
	}
	return c
}

// histNontrivial: the history reaches one local ip:port with both protocols while at least
// one of the two has a port entry (later connections meet state left by an earlier one of
// the other protocol).
func histNontrivial(c histCase) bool {
	type k struct {
		off   int
		other bool
	}
	seen := map[k]map[string]bool{}
	conf := map[k]bool{}
	for _, s := range c.Steps {
		kk := k{s.Off, s.Other}
		if seen[kk] == nil {
			seen[kk] = map[string]bool{}
		}
		seen[kk][s.Proto] = true
		if c.entry(s) >= 0 {
			conf[kk] = true
		}
	}
	for kk, m := range seen {
		if len(m) == 2 && conf[kk] {
			return true
		}
	}
	return false
}

func histLosesPeek(c histCase) bool {
	for _, s := range c.Steps {
		if e := c.entry(s); e >= 0 && losesPeek(selCase{Services: c.Ports[e].Services, Payload: s.Payload}) {
			return true
		}
	}
	return false
}

func runHistory(t *testing.T, name string, socket bool, checks int) {
	r := vlib.Open(prop)
	var hc histCase
	if vlib.ReplayCase(name, &hc) {
		if err := checkHistory(hc); err != nil && !strings.HasPrefix(err.Error(), "inconclusive:") {
			r.Violation(t, name, hc, err.Error())
		}
		return
	}
	r.Rapid(t, name, checks, func(rt *rapid.T) {
		c := genHistory(rt, socket)
		if r.IsKnown("C08-peeked-bytes-lost") && histLosesPeek(c) {
			r.Excluded("C08-peeked-bytes-lost")
			rt.Skip("known finding excluded by construction")
		}
		fp := ""
		if histNontrivial(c) {
			fp = vlib.JSON(c)
		}
		tr := "mem"
		if socket {
			tr = "socket"
		}
		shared := "distinct-numbers"
		for _, p := range c.Ports {
			for _, q := range c.Ports {
				if p.Off == q.Off && p.Proto != q.Proto {
					shared = "tcp+udp-share-a-number"
				}
			}
		}
		r.Case(fmt.Sprintf("history/%s/%s/ports=%d", tr, shared, len(c.Ports)), fp, func() interface{} { return c })
		if err := checkHistory(c); err != nil {
			if strings.HasPrefix(err.Error(), "infra:") {
				rt.Fatalf("%v", err)
			}
			if strings.HasPrefix(err.Error(), "inconclusive:") {
				r.Label("inconclusive/history-udp-datagram-not-delivered", 1)
				return
			}
			r.Fail(rt, name, c, "%v", err)
		}
	})
}

func TestSelectHistoryMem(t *testing.T) {
	r := vlib.Open(prop)
	r.Rule("one server instance, port table of 1..3 entries over {tcp,udp} x {P,P+1} (tcp/P and udp/P usually both present, with their own service lists of 0..4 stubs; wildcard or specific address), then a history of 1..6 connections delivered one after the other whose protocol, port (P, P+1, unconfigured P+2) and local address vary from step to step; oracle per connection = reference selection rule on the service list of the one entry matching protocol+port+address (none -> no service may be invoked), stream intact, exactly one service; invocations are attributed to steps by the client address; non-trivial = both protocols reach the same local ip:port and at least one of them is configured")
	runHistory(t, "TestSelectHistoryMem", false, r.Pick(1500, 15000))
}

func TestSelectHistorySocket(t *testing.T) {
	r := vlib.Open(prop)
	runHistory(t, "TestSelectHistorySocket", true, r.Pick(12, 60))
}
