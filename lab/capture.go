package lab

import (
	"bytes"
	"encoding/json"
	"fmt"
	"sort"
	"sync"
	"time"

	"github.com/honeytrap/honeytrap/event"
	"github.com/honeytrap/honeytrap/pushers"
)

// Ev is one captured event: a snapshot of its key/value store taken at delivery.
type Ev struct {
	Seq int
	M   map[string]interface{}
	// SerErr is non-empty when the event could not be serialised the way the
	// file/kafka channels do it, or the JSON lacked a stored key (feeds C05).
	SerErr string
}

func (e Ev) Str(k string) string {
	v, ok := e.M[k]
	if !ok || v == nil {
		return ""
	}
	if s, ok := v.(string); ok {
		return s
	}
	return fmt.Sprint(v)
}

func (e Ev) Has(k string) bool { _, ok := e.M[k]; return ok }

// Canon renders the event deterministically without volatile keys.
func (e Ev) Canon(skip ...string) string {
	ks := make([]string, 0, len(e.M))
outer:
	for k := range e.M {
		if k == "date" {
			continue
		}
		for _, s := range skip {
			if s == k {
				continue outer
			}
		}
		ks = append(ks, k)
	}
	sort.Strings(ks)
	var b bytes.Buffer
	for _, k := range ks {
		fmt.Fprintf(&b, "%s=%q;", k, fmt.Sprint(e.M[k]))
	}
	return b.String()
}

// Capture is registered as channel type "verif-capture".
type Capture struct {
	ID string `toml:"id"`

	mu     sync.Mutex
	cond   *sync.Cond
	events []Ev
	serBad int
}

var captures = map[string]*Capture{}

func init() {
	pushers.Register("verif-capture", func(options ...func(pushers.Channel) error) (pushers.Channel, error) {
		c := &Capture{}
		c.cond = sync.NewCond(&c.mu)
		for _, o := range options {
			o(c)
		}
		regMu.Lock()
		captures[c.ID] = c
		regMu.Unlock()
		return c, nil
	})
}

// NewCapture builds a capture channel outside the server (direct service harnesses).
func NewCapture() *Capture {
	c := &Capture{}
	c.cond = sync.NewCond(&c.mu)
	return c
}

func (c *Capture) Send(e event.Event) {
	m := event.ToMap(e)
	ev := Ev{M: m}
	// serialise the way the file / kafka channels do
	var buf bytes.Buffer
	if err := json.NewEncoder(&buf).Encode(m); err != nil {
		ev.SerErr = "channel snapshot does not serialise: " + err.Error()
	} else if d, err := json.Marshal(e); err != nil {
		ev.SerErr = "json.Marshal(event): " + err.Error()
	} else {
		var back map[string]json.RawMessage
		if err := json.Unmarshal(d, &back); err != nil {
			ev.SerErr = "event JSON does not parse: " + err.Error()
		} else {
			for k := range m {
				if _, ok := back[k]; !ok {
					ev.SerErr = fmt.Sprintf("key %q stored in the event is missing from its JSON", k)
				}
			}
		}
	}
	c.mu.Lock()
	ev.Seq = len(c.events)
	c.events = append(c.events, ev)
	if ev.SerErr != "" {
		c.serBad++
	}
	c.cond.Broadcast()
	c.mu.Unlock()
}

func (c *Capture) Events() []Ev {
	c.mu.Lock()
	defer c.mu.Unlock()
	return append([]Ev(nil), c.events...)
}

func (c *Capture) Len() int {
	c.mu.Lock()
	defer c.mu.Unlock()
	return len(c.events)
}

// WaitFor waits until pred holds over the event list (checked on every arrival).
func (c *Capture) WaitFor(timeout time.Duration, pred func([]Ev) bool) bool {
	deadline := time.Now().Add(timeout)
	t := time.AfterFunc(timeout+time.Millisecond, func() {
		c.mu.Lock()
		c.cond.Broadcast()
		c.mu.Unlock()
	})
	defer t.Stop()
	c.mu.Lock()
	defer c.mu.Unlock()
	for {
		if pred(c.events) {
			return true
		}
		if !time.Now().Before(deadline) {
			return false
		}
		c.cond.Wait()
	}
}

// Settle waits until no event has arrived for quiet (bounded by max).
func (c *Capture) Settle(quiet, max time.Duration) {
	end := time.Now().Add(max)
	last := c.Len()
	mark := time.Now()
	for time.Now().Before(end) {
		time.Sleep(quiet / 4)
		n := c.Len()
		if n != last {
			last = n
			mark = time.Now()
		} else if time.Since(mark) >= quiet {
			return
		}
	}
}

// From filters events by source ip / port (0 = any port).
func From(evs []Ev, ip string, port int) []Ev {
	var out []Ev
	for _, e := range evs {
		if e.Str("source-ip") != ip {
			continue
		}
		if port != 0 && e.Str("source-port") != fmt.Sprint(port) {
			continue
		}
		out = append(out, e)
	}
	return out
}
