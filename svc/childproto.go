package svc

// Wire protocol between a property test (parent) and the lab child process (labd):
// one JSON document per line; requests on the child's stdin, responses on fd 3.

type WireStep struct {
	D string `json:"d"`           // hex
	W bool   `json:"w,omitempty"` // wait until the server is idle again
}

// SSHScript drives a real x/crypto/ssh client inside the child.
type SSHScript struct {
	User     string       `json:"user"`
	Pass     string       `json:"pass"`
	Channel  string       `json:"channel"`         // channel type to open ("session", "direct-tcpip", ...)
	Extra    string       `json:"extra,omitempty"` // hex extra data for the channel open
	Requests []SSHRequest `json:"requests"`
	Data     string       `json:"data,omitempty"` // hex, written to the channel after the requests
}

type SSHRequest struct {
	Type    string `json:"type"`
	Payload string `json:"payload"` // hex
	Reply   bool   `json:"reply"`
}

type WireScript struct {
	Service string     `json:"service"`
	UDP     bool       `json:"udp,omitempty"`
	Steps   []WireStep `json:"steps,omitempty"`
	End     string     `json:"end,omitempty"` // close | reset | open
	SSH     *SSHScript `json:"ssh,omitempty"`
	// LingerMs: after the last step wait (at most 3x as long) until the server has written nothing
	// for this long before ending the connection - for replies that are pushed asynchronously
	LingerMs int `json:"linger_ms,omitempty"`
}

type Request struct {
	ID      int          `json:"id"`
	Op      string       `json:"op"` // run | probe | stats | waitclosed | gc
	Scripts []WireScript `json:"scripts,omitempty"`
	Order   []int        `json:"order,omitempty"`
	Keep    bool         `json:"keep,omitempty"` // keep the connections for a later waitclosed
	Handles []int        `json:"handles,omitempty"`
	WaitMs  int          `json:"wait_ms,omitempty"`
}

type ConnReport struct {
	Handle    int    `json:"handle"`
	OutLen    int    `json:"out_len"`
	OutHead   string `json:"out_head"` // hex of the first bytes the server wrote
	Closed    bool   `json:"closed"`
	CloseMs   int    `json:"close_ms"` // time from the client's end to the server closing
	Consumed  int    `json:"consumed"`
	Reads     int    `json:"reads"`
	Events    int    `json:"events"`
	Replies   int    `json:"replies"`
	ReplyLen  int    `json:"reply_len"`
	Fatal     int    `json:"fatal_events"` // fatal-severity events (recovered per-connection panics)
	SSHErr    string `json:"ssh_err,omitempty"`
	SSHAuthed bool   `json:"ssh_authed,omitempty"`
}

type Stats struct {
	HeapInuse   uint64         `json:"heap_inuse"`
	HeapAlloc   uint64         `json:"heap_alloc"`
	Sys         uint64         `json:"sys"`
	Goroutines  int            `json:"goroutines"`
	HTFrames    map[string]int `json:"ht_frames"` // goroutines grouped by their innermost honeytrap function
	FDs         int            `json:"fds"`
	Listening   int            `json:"listening"`
	CPUMs       int64          `json:"cpu_ms"`
	SerialiseKO int            `json:"serialise_ko"` // events that failed the channel serialisation check
	SerErr      string         `json:"ser_err,omitempty"`
}

type Response struct {
	ID    int          `json:"id"`
	Err   string       `json:"err,omitempty"`
	Conns []ConnReport `json:"conns,omitempty"`
	OK    bool         `json:"ok,omitempty"`
	Stats *Stats       `json:"stats,omitempty"`
}
