// labd is the lab child: it runs the real server with every director-less service in
// its own process, executes scenarios sent by a property test and reports transcripts,
// event counts and resource statistics. Dying is a legitimate outcome: the parent sees it.
package main

import (
	"bufio"
	"encoding/hex"
	"encoding/json"
	"fmt"
	"net"
	"os"
	"regexp"
	"runtime"
	"strconv"
	"strings"
	"sync"
	"time"

	"golang.org/x/crypto/ssh"

	"verif/lab"
	"verif/svc"
)

type live struct {
	se    *svc.Session
	ended time.Time
	sshE  string
	authd bool
}

var (
	inst    *svc.Instance
	handles = map[int]*live{}
	nextH   = 1
	mu      sync.Mutex
)

func main() {
	out := os.NewFile(3, "resp")
	if out == nil {
		fmt.Fprintln(os.Stderr, "labd: fd 3 missing")
		os.Exit(2)
	}
	var keys []string
	if k := os.Getenv("LABD_SERVICES"); k != "" {
		keys = strings.Split(k, ",")
	}
	var err error
	inst, err = svc.StartInstance(keys)
	if err != nil {
		fmt.Fprintln(os.Stderr, "labd: start:", err)
		os.Exit(2)
	}
	enc := json.NewEncoder(out)
	enc.Encode(svc.Response{ID: 0, OK: true})
	in := bufio.NewReaderSize(os.Stdin, 1<<20)
	for {
		line, err := in.ReadBytes('\n')
		if err != nil {
			os.Exit(0)
		}
		var req svc.Request
		if err := json.Unmarshal(line, &req); err != nil {
			enc.Encode(svc.Response{Err: "bad request: " + err.Error()})
			continue
		}
		enc.Encode(handle(req))
	}
}

func handle(req svc.Request) svc.Response {
	switch req.Op {
	case "run":
		return run(req)
	case "probe":
		return probe(req)
	case "stats":
		return svc.Response{ID: req.ID, Stats: stats()}
	case "mem":
		var ms runtime.MemStats
		runtime.ReadMemStats(&ms)
		return svc.Response{ID: req.ID, Stats: &svc.Stats{HeapInuse: ms.HeapInuse, HeapAlloc: ms.HeapAlloc, Sys: ms.Sys, Goroutines: runtime.NumGoroutine(), CPUMs: cpuMs()}}
	case "waitclosed":
		return waitClosed(req)
	}
	return svc.Response{ID: req.ID, Err: "unknown op"}
}

func run(req svc.Request) svc.Response {
	n := len(req.Scripts)
	ls := make([]*live, n)
	for i, ws := range req.Scripts {
		sc := &svc.Script{Service: ws.Service, UDP: ws.UDP, End: ws.End}
		for _, st := range ws.Steps {
			b, _ := hex.DecodeString(st.D)
			sc.Steps = append(sc.Steps, svc.Step{Data: b, Wait: st.W})
		}
		ls[i] = &live{se: &svc.Session{Script: sc}}
	}
	opened := make([]bool, n)
	var wg sync.WaitGroup
	open := func(i int) {
		if opened[i] {
			return
		}
		opened[i] = true
		ls[i].se = inst.Open(ls[i].se.Script)
		if ws := req.Scripts[i]; ws.SSH != nil {
			wg.Add(1)
			go func(l *live, s *svc.SSHScript) {
				defer wg.Done()
				l.sshE, l.authd = sshClient(l.se, s)
			}(ls[i], ws.SSH)
		}
	}
	order := req.Order
	if len(order) == 0 {
		for i, ws := range req.Scripts {
			for range ws.Steps {
				order = append(order, i)
			}
			if len(ws.Steps) == 0 {
				order = append(order, i)
			}
		}
	}
	for _, i := range order {
		if i < 0 || i >= n {
			continue
		}
		open(i)
		ls[i].se.Next()
	}
	for i := range ls {
		open(i)
	}
	done := make(chan struct{})
	go func() { wg.Wait(); close(done) }()
	select {
	case <-done:
	case <-time.After(20 * time.Second):
	}
	// linger: all connections that asked for it are watched together
	{
		type lw struct {
			l     *live
			lg    time.Duration
			last  int
			since time.Time
		}
		var ws []*lw
		for i, l := range ls {
			if lg := req.Scripts[i].LingerMs; lg > 0 && !l.se.Script.UDP && l.se.Conn != nil {
				ws = append(ws, &lw{l, time.Duration(lg) * time.Millisecond, len(l.se.Conn.Output()), time.Now()})
			}
		}
		// (a server that never stops writing - vnc pushes frames at 30 Hz - is left after
		// three times the quiet period)
		var maxLg time.Duration
		for _, w := range ws {
			maxLg = max(maxLg, w.lg)
		}
		limit := time.Now().Add(3 * maxLg)
		for len(ws) > 0 && time.Now().Before(limit) {
			quiet := true
			for _, w := range ws {
				if n := len(w.l.se.Conn.Output()); n != w.last {
					w.last, w.since = n, time.Now()
				}
				if time.Since(w.since) < w.lg {
					quiet = false
				}
			}
			if quiet {
				break
			}
			time.Sleep(5 * time.Millisecond)
		}
	}
	for _, l := range ls {
		l.se.Finish()
		l.ended = time.Now()
	}
	resp := svc.Response{ID: req.ID}
	wait := time.Duration(req.WaitMs) * time.Millisecond
	if wait == 0 {
		wait = 10 * time.Second
	}
	deadline := time.Now().Add(wait)
	for _, l := range ls {
		sc := l.se.Script
		if !sc.UDP && sc.End != "open" {
			l.se.Conn.WaitClosed(time.Until(deadline))
		}
	}
	if req.Scripts != nil {
		inst.Cap.Settle(5*time.Millisecond, 150*time.Millisecond)
	}
	for _, l := range ls {
		resp.Conns = append(resp.Conns, report(l, req.Keep))
	}
	return resp
}

func report(l *live, keep bool) svc.ConnReport {
	var r svc.ConnReport
	se := l.se
	if keep {
		mu.Lock()
		r.Handle = nextH
		handles[nextH] = l
		nextH++
		mu.Unlock()
	}
	if se.Script.UDP {
		for _, d := range se.Dgrams {
			for _, rep := range d.Snapshot() {
				r.Replies++
				r.ReplyLen += len(rep)
			}
		}
	} else {
		out := se.Conn.Output()
		r.OutLen = len(out)
		if len(out) > 48 {
			out = out[:48]
		}
		r.OutHead = hex.EncodeToString(out)
		r.Closed = se.Conn.IsClosed()
		r.Consumed, r.Reads = se.Conn.Consumed()
	}
	for _, e := range se.Events() {
		r.Events++
		if e.Str("type") == "fatal" {
			r.Fatal++
		}
	}
	r.SSHErr, r.SSHAuthed = l.sshE, l.authd
	return r
}

func waitClosed(req svc.Request) svc.Response {
	resp := svc.Response{ID: req.ID}
	deadline := time.Now().Add(time.Duration(req.WaitMs) * time.Millisecond)
	for _, h := range req.Handles {
		mu.Lock()
		l := handles[h]
		mu.Unlock()
		if l == nil {
			resp.Conns = append(resp.Conns, svc.ConnReport{Handle: h})
			continue
		}
		if !l.se.Script.UDP {
			l.se.Conn.WaitClosed(time.Until(deadline))
		}
		r := report(l, false)
		r.Handle = h
		if r.Closed {
			r.CloseMs = int(time.Since(l.ended) / time.Millisecond)
			mu.Lock()
			delete(handles, h)
			mu.Unlock()
		}
		resp.Conns = append(resp.Conns, r)
	}
	return resp
}

var probeSerial int

func probe(req svc.Request) svc.Response {
	probeSerial++
	msg := []byte(fmt.Sprintf("probe-%d-%d", os.Getpid(), probeSerial))
	sc := &svc.Script{Service: "echo", Steps: []svc.Step{{Data: msg}}, End: "open"}
	se := inst.Open(sc)
	se.Next()
	ok := se.Conn.WaitOutput(len(msg), 10*time.Second)
	got := se.Conn.Output()
	se.Conn.CloseWrite()
	se.Conn.WaitClosed(5 * time.Second)
	if !ok || string(got) != string(msg) {
		return svc.Response{ID: req.ID, Err: fmt.Sprintf("echo probe not served: sent %q got %q", msg, got)}
	}
	return svc.Response{ID: req.ID, OK: true}
}

var htFrame = regexp.MustCompile(`(?m)^(github\.com/honeytrap/honeytrap/[^\s(]+(?:\([^)]*\))?[^\s(]*)\(`)

func stats() *svc.Stats {
	runtime.GC()
	var ms runtime.MemStats
	runtime.ReadMemStats(&ms)
	s := &svc.Stats{HeapInuse: ms.HeapInuse, HeapAlloc: ms.HeapAlloc, Sys: ms.Sys, Goroutines: runtime.NumGoroutine(), HTFrames: map[string]int{}}
	if stackBuf == nil {
		stackBuf = make([]byte, 16<<20)
	}
	nb := runtime.Stack(stackBuf, true)
	for _, g := range strings.Split(string(stackBuf[:nb]), "\n\n") {
		if m := htFrame.FindStringSubmatch(g); m != nil {
			s.HTFrames[m[1]]++
		}
	}
	if ents, err := os.ReadDir("/proc/self/fd"); err == nil {
		s.FDs = len(ents)
	}
	own := ownInodes()
	for _, f := range []string{"/proc/self/net/tcp", "/proc/self/net/tcp6"} {
		if data, err := os.ReadFile(f); err == nil {
			for _, ln := range strings.Split(string(data), "\n")[1:] {
				fs := strings.Fields(ln)
				if len(fs) > 9 && fs[3] == "0A" && own[fs[9]] {
					s.Listening++
				}
			}
		}
	}
	s.CPUMs = cpuMs()
	for _, e := range inst.Cap.Events() {
		if e.SerErr != "" {
			s.SerialiseKO++
			s.SerErr = e.SerErr + " in " + e.Canon("payload", "payload-hex", "stacktrace")
		}
	}
	return s
}

func cpuMs() int64 {
	if data, err := os.ReadFile("/proc/self/stat"); err == nil {
		fs := strings.Fields(string(data[strings.LastIndexByte(string(data), ')')+2:]))
		if len(fs) > 12 {
			ut, _ := strconv.ParseInt(fs[11], 10, 64)
			st, _ := strconv.ParseInt(fs[12], 10, 64)
			return (ut + st) * 10
		}
	}
	return 0
}

var stackBuf []byte

func ownInodes() map[string]bool {
	out := map[string]bool{}
	ents, err := os.ReadDir("/proc/self/fd")
	if err != nil {
		return out
	}
	for _, e := range ents {
		if l, err := os.Readlink("/proc/self/fd/" + e.Name()); err == nil && strings.HasPrefix(l, "socket:[") {
			out[strings.TrimSuffix(strings.TrimPrefix(l, "socket:["), "]")] = true
		}
	}
	return out
}

// sshClient drives a real ssh client over the in-memory connection.
func sshClient(se *svc.Session, s *svc.SSHScript) (errs string, authed bool) {
	defer func() {
		if r := recover(); r != nil {
			errs = fmt.Sprint("client panic: ", r)
		}
	}()
	nc := se.Conn.NetConn()
	nc.SetDeadline(time.Now().Add(15 * time.Second))
	cfg := &ssh.ClientConfig{User: s.User, Auth: []ssh.AuthMethod{ssh.Password(s.Pass)}, HostKeyCallback: ssh.InsecureIgnoreHostKey(), Timeout: 10 * time.Second}
	cc, chans, reqs, err := ssh.NewClientConn(nc, "lab", cfg)
	if err != nil {
		return err.Error(), false
	}
	defer cc.Close()
	go ssh.DiscardRequests(reqs)
	go func() {
		for c := range chans {
			c.Reject(ssh.Prohibited, "")
		}
	}()
	extra, _ := hex.DecodeString(s.Extra)
	ch, creqs, err := cc.OpenChannel(s.Channel, extra)
	if err != nil {
		return "", true
	}
	go ssh.DiscardRequests(creqs)
	for _, r := range s.Requests {
		p, _ := hex.DecodeString(r.Payload)
		done := make(chan struct{})
		go func() {
			defer close(done)
			ch.SendRequest(r.Type, r.Reply, p)
		}()
		select {
		case <-done:
		case <-time.After(3 * time.Second):
			return "request " + r.Type + " unanswered", true
		}
	}
	if s.Data != "" {
		d, _ := hex.DecodeString(s.Data)
		ch.Write(d)
	}
	time.Sleep(5 * time.Millisecond)
	ch.Close()
	return "", true
}

var _ = net.IPv4
var _ = lab.NextID
