//go:build verif && linux
// +build verif,linux

// C14 - raw-listener TCP handshake, acknowledgements and checksums.
//
// A reference TCP client (own sequence arithmetic, own frame builder / decoder / RFC 1071
// checksum verifier from verif/canarylab) talks to a hooked canary that lives in a child
// process: every client frame is injected synchronously (InjectFrame), the frames the
// listener queued for transmit are drained and decoded, events arrive on the report
// stream. Failures are re-run on a fresh canary; only reproducible ones are violations.
package c14

import (
	"bytes"
	"encoding/hex"
	"fmt"
	"sort"
	"strings"
	"sync"
	"testing"
	"time"

	"pgregory.net/rapid"

	cl "verif/canarylab"
	"verif/vlib"
)

const prop = "C14"

func TestMain(m *testing.M) { cl.ChildIfRequested(); vlib.Main(m, prop) }

// ---------------------------------------------------------------------------------
// scenario

type segSpec struct {
	Len int  `json:"len"`
	PSH bool `json:"psh"`
}

type connSpec struct {
	Client       int       `json:"client"` // index of the client station (0..3)
	Sport        uint16    `json:"sport"`
	Dport        uint16    `json:"dport"`
	ISN          uint32    `json:"isn"`
	Stream       string    `json:"stream_hex"`
	Segs         []segSpec `json:"segs"`
	FinOnLast    bool      `json:"fin_on_last"`    // FIN rides on the last data segment
	AckServerFin bool      `json:"ack_server_fin"` // the client acknowledges the listener's FIN with a pure ACK
	// After (1-based index into Conns, 0 = none): this connection starts only when that
	// earlier one has sent all its frames - sequential reuse of a 4-tuple (or of one that
	// differs in a single field) after a completed connection.
	After int `json:"after,omitempty"`
	// Trailer: link-layer bytes behind the IP datagram of every frame of this client.
	// -1: frames shorter than the Ethernet minimum of 60 bytes are padded to it (what a
	// client on a real Ethernet sends: bare ACKs, FINs and segments of 1..5 bytes),
	// k > 0: k trailer bytes, 0: frames end with the datagram. The trailer is not part of
	// the segment: acknowledgements and the event's payload count the real bytes only.
	Trailer int `json:"trailer,omitempty"`
}

type scenario struct {
	Conns []connSpec `json:"conns"`
	Order []int      `json:"order"` // which connection sends its next frame; leftovers run round-robin
	// Async: no barrier between frames - the port handler goroutines race with the next
	// frames. Outcomes that depend on that race (how much the handler's first read
	// returns, a wake-up lost before the handler parks) are then recorded as
	// flaky_schedule, never as violations; everything else is checked as usual.
	Async bool `json:"async,omitempty"`
}

// scheduleErr marks a failed expectation that depends on goroutine scheduling.
type scheduleErr struct{ error }

var clients = []cl.Peer{
	{IP: cl.IP4{10, 0, 0, 1}, MAC: cl.MAC{0x02, 0xc1, 0, 0, 0, 1}},
	{IP: cl.IP4{10, 0, 0, 2}, MAC: cl.MAC{0x02, 0xc1, 0, 0, 0, 2}},
	{IP: cl.IP4{172, 16, 255, 254}, MAC: cl.MAC{0x02, 0xc1, 0, 0, 0, 3}},
	{IP: cl.IP4{203, 0, 113, 77}, MAC: cl.MAC{0x02, 0xc1, 0, 0, 0, 4}},
}

var (
	local    cl.Local
	localErr error
	once     sync.Once
)

func env(t testing.TB) cl.Local {
	once.Do(func() { local, localErr = cl.FindLocal() })
	if localErr != nil {
		t.Fatalf("infra: %v", localErr)
	}
	return local
}

func canaryConfig(l cl.Local) cl.Config {
	cfg := cl.Config{Interfaces: []string{l.Name}}
	for _, p := range clients {
		cfg.ARP = append(cfg.ARP, cl.ARPEntry{IP: p.IP.String(), MAC: p.MAC.String(), Interface: l.Name})
	}
	return cfg
}

// ---------------------------------------------------------------------------------
// reference client / expectations

type stepKind int

const (
	stSYN stepKind = iota
	stACK
	stData
	stFIN
)

type step struct {
	kind stepKind
	seg  int // index into Segs for stData
}

type connRun struct {
	spec   connSpec
	peer   cl.Peer
	stream []byte
	steps  []step
	next   int

	sent     int    // stream bytes sent so far
	finSent  bool   // client FIN sent
	srvNext  uint32 // next sequence number expected from the listener (client's ack field)
	haveSrv  bool
	pushEnd  int // stream offset after the first pushed segment (-1: none before the FIN)
	srvFin   bool
	finAcked bool
	acks     map[uint32]bool // every value that was the exact acknowledgement at some moment
	chainPos int             // number of earlier connections of the scenario on the same 4-tuple
	after    *connRun
}

func (c *connRun) done() bool { return c.next >= len(c.steps) }

func (c *connRun) eligible() bool { return !c.done() && (c.after == nil || c.after.done()) }

func (c *connRun) key() string {
	return fmt.Sprintf("%s:%d>%d", c.peer.IP, c.spec.Sport, c.spec.Dport)
}

// expectedAck is what the listener must acknowledge given what the client has sent.
func (c *connRun) expectedAck() uint32 {
	a := c.spec.ISN + 1 + uint32(c.sent)
	if c.finSent {
		a++
	}
	return a
}

func newConnRun(s connSpec) (*connRun, error) {
	if s.Client < 0 || s.Client >= len(clients) {
		return nil, fmt.Errorf("bad client index")
	}
	stream, err := hex.DecodeString(s.Stream)
	if err != nil {
		return nil, err
	}
	total := 0
	for _, sg := range s.Segs {
		if sg.Len <= 0 {
			return nil, fmt.Errorf("empty segment")
		}
		total += sg.Len
	}
	if total != len(stream) {
		return nil, fmt.Errorf("segments cover %d bytes, stream has %d", total, len(stream))
	}
	c := &connRun{spec: s, peer: clients[s.Client], stream: stream, pushEnd: -1, acks: map[uint32]bool{}}
	c.steps = append(c.steps, step{kind: stSYN}, step{kind: stACK})
	for i := range s.Segs {
		c.steps = append(c.steps, step{kind: stData, seg: i})
	}
	finOnLast := s.FinOnLast && len(s.Segs) > 0
	if !finOnLast {
		c.steps = append(c.steps, step{kind: stFIN})
	}
	// stream offset after the first pushed segment
	cum := 0
	for _, st := range c.steps {
		if st.kind == stData {
			cum += s.Segs[st.seg].Len
			if s.Segs[st.seg].PSH && c.pushEnd < 0 {
				c.pushEnd = cum
			}
		}
	}
	return c, nil
}

type runner struct {
	l     cl.Local
	k     *cl.Canary
	async bool
	conns []*connRun
	trace []string
}

func (r *runner) logf(format string, a ...interface{}) {
	if len(r.trace) < 400 {
		r.trace = append(r.trace, fmt.Sprintf(format, a...))
	}
}

func (r *runner) fail(format string, a ...interface{}) error {
	msg := fmt.Sprintf(format, a...)
	tr := r.trace
	if len(tr) > 10 {
		tr = tr[len(tr)-10:]
	}
	return fmt.Errorf("%s || last frames: %s", msg, strings.Join(tr, " ; "))
}

// frameOf builds the client's frame for step i of c with the client's current view.
func (r *runner) frameOf(c *connRun, st step) ([]byte, string) {
	f, what := r.rawFrameOf(c, st)
	if c.spec.Trailer != 0 {
		g := cl.Trailer(f, c.spec.Trailer, byte(c.sent)+0x41)
		if len(g) != len(f) {
			what += fmt.Sprintf(" +%d trailer bytes", len(g)-len(f))
		}
		f = g
	}
	return f, what
}

func (r *runner) rawFrameOf(c *connRun, st step) ([]byte, string) {
	f := cl.TCPFields{Sport: c.spec.Sport, Dport: c.spec.Dport, DataOff: -1, Window: 64240}
	switch st.kind {
	case stSYN:
		f.Seq = c.spec.ISN
		f.Flags = cl.SYN
		f.Options = []byte{2, 4, 5, 0xb4, 1, 1, 4, 2} // MSS 1460, NOP, NOP, SACK permitted
		return r.l.TCPFrame(c.peer, f), "SYN"
	case stACK:
		f.Seq = c.spec.ISN + 1
		f.Ack = c.srvNext
		f.Flags = cl.ACK
		return r.l.TCPFrame(c.peer, f), "ACK"
	case stData:
		sg := c.spec.Segs[st.seg]
		f.Seq = c.spec.ISN + 1 + uint32(c.sent)
		f.Ack = c.srvNext
		f.Flags = cl.ACK
		if sg.PSH {
			f.Flags |= cl.PSH
		}
		if c.spec.FinOnLast && st.seg == len(c.spec.Segs)-1 {
			f.Flags |= cl.FIN
		}
		f.Payload = c.stream[c.sent : c.sent+sg.Len]
		return r.l.TCPFrame(c.peer, f), fmt.Sprintf("DATA[%d..%d) flags=%#02x", c.sent, c.sent+sg.Len, f.Flags)
	default:
		f.Seq = c.spec.ISN + 1 + uint32(c.sent)
		f.Ack = c.srvNext
		f.Flags = cl.FIN | cl.ACK
		return r.l.TCPFrame(c.peer, f), "FIN"
	}
}

// owner finds the connection an emitted frame is addressed to.
func (r *runner) owner(f *cl.TCPFrame) *connRun {
	var best *connRun
	for _, c := range r.conns {
		if f.DstIP == c.peer.IP && f.Dport == c.spec.Sport && f.Sport == c.spec.Dport {
			// sequential reuse of a tuple: the frame belongs to the latest connection that has started
			if best == nil || c.next > 0 {
				best = c
			}
		}
	}
	return best
}

// absorb validates the frames drained after a step of connection cur (nil: no step, only
// asynchronous output). prevAck is cur's expected acknowledgement before the step.
func (r *runner) absorb(cur *connRun, prevAck uint32, raws [][]byte) ([]*cl.TCPFrame, error) {
	var mine []*cl.TCPFrame
	for _, raw := range raws {
		f, err := cl.DecodeTCPFrame(raw)
		if err != nil {
			return nil, r.fail("the listener emitted a frame that does not decode as Ethernet/IPv4/TCP: %v (frame %x)", err, raw)
		}
		r.logf("<- %s", f)
		if !f.IPSumOK {
			return nil, r.fail("emitted frame has a wrong IPv4 header checksum: %s", f)
		}
		if !f.TCPSumOK {
			return nil, r.fail("emitted frame has a wrong TCP checksum (pseudo header + segment, payload %d bytes): %s", len(f.Payload), f)
		}
		c := r.owner(f)
		if c == nil {
			return nil, r.fail("emitted frame is addressed to nobody who sent anything (no connection %s:%d <- port %d): %s", f.DstIP, f.Dport, f.Sport, f)
		}
		if f.DstMAC != c.peer.MAC {
			return nil, r.fail("emitted frame for %s goes to hardware address %s, the sender is %s", c.key(), f.DstMAC, c.peer.MAC)
		}
		if f.SrcIP != r.l.IP {
			return nil, r.fail("emitted frame for %s has source address %s, the client talked to %s", c.key(), f.SrcIP, r.l.IP)
		}
		if f.Flags&cl.ACK != 0 {
			want := c.expectedAck()
			ok := f.Ack == want
			if c == cur && f.Ack == prevAck {
				ok = true // emitted by the port handler just before this segment was processed
			}
			if c == cur && c.finSent && f.Ack == want-1 && f.Flags&cl.FIN == 0 {
				ok = true // acknowledges the data of a segment whose FIN is answered separately
			}
			if r.async && c.acks[f.Ack] {
				ok = true // emitted by a port handler at an earlier moment, when this was exact
			}
			if !ok {
				return nil, r.fail("connection %s: the listener acknowledges %d, the client has sent exactly up to %d (ISN %d + 1 + %d stream bytes, FIN sent=%v)", c.key(), f.Ack, want, c.spec.ISN, c.sent, c.finSent)
			}
		}
		// the client's view of the listener's sequence space
		end := f.Seq + uint32(len(f.Payload))
		if f.Flags&cl.SYN != 0 {
			end++
		}
		if f.Flags&cl.FIN != 0 {
			end++
			c.srvFin = true
		}
		if !c.haveSrv || int32(end-c.srvNext) > 0 {
			c.srvNext = end
			c.haveSrv = true
		}
		if c == cur {
			mine = append(mine, f)
		}
	}
	return mine, nil
}

func (r *runner) eventOf(c *connRun, evs []cl.Ev) []cl.Ev {
	var out []cl.Ev
	for _, e := range evs {
		if e.Str("source-ip") == c.peer.IP.String() && e.Str("source-port") == fmt.Sprint(c.spec.Sport) &&
			e.Str("destination-ip") == r.l.IP.String() && e.Str("destination-port") == fmt.Sprint(c.spec.Dport) {
			out = append(out, e)
		}
	}
	return out
}

func (r *runner) inject(c *connRun, frame []byte) ([][]byte, error) {
	for _, x := range r.conns {
		x.acks[x.expectedAck()] = true
	}
	var tx [][]byte
	var pmsg string
	var err error
	if r.async {
		tx, pmsg, err = r.k.Inject(frame)
	} else {
		tx, pmsg, err = r.k.InjectQuiesced(frame)
	}
	if err != nil {
		return nil, fmt.Errorf("infra: %v", err)
	}
	if pmsg != "" {
		// a crash is C02's subject and would have to be confirmed through the real receive
		// loop; here the recovered panic simply means the frame got no (complete) answer,
		// which the expectations below judge - the text is kept as detail
		r.logf("!! handleTCP panicked under InjectFrame on this frame: %s", pmsg)
	}
	return tx, nil
}

// stepConn sends the next frame of c and checks the response.
func (r *runner) stepConn(c *connRun) error {
	st := c.steps[c.next]
	c.next++
	frame, what := r.frameOf(c, st)
	prevAck := c.expectedAck()
	switch st.kind {
	case stData:
		c.sent += c.spec.Segs[st.seg].Len
		if c.spec.FinOnLast && st.seg == len(c.spec.Segs)-1 {
			c.finSent = true
		}
	case stFIN:
		c.finSent = true
	}
	r.logf("-> %s %s", c.key(), what)
	tx, err := r.inject(c, frame)
	if err != nil {
		return err
	}
	mine, err := r.absorb(c, prevAck, tx)
	if err != nil {
		return err
	}
	has := func(flags byte, ack uint32) bool {
		for _, f := range mine {
			if f.Flags&flags == flags && f.Ack == ack {
				return true
			}
		}
		return false
	}
	switch st.kind {
	case stSYN:
		if !has(cl.SYN|cl.ACK, c.spec.ISN+1) {
			return r.fail("connection %s: SYN with ISN %d was not answered with a SYN-ACK acknowledging %d (got %d frame(s) for this connection)", c.key(), c.spec.ISN, c.spec.ISN+1, len(mine))
		}
	case stACK:
		// established: observable through what follows
	case stData:
		if !has(cl.ACK, c.expectedAck()) {
			return r.fail("connection %s: data segment [%d..%d) was not acknowledged with %d = ISN %d + 1 + %d bytes%s (got %d frame(s) for this connection)", c.key(), c.sent-c.spec.Segs[st.seg].Len, c.sent, c.expectedAck(), c.spec.ISN, c.sent, map[bool]string{true: " + FIN", false: ""}[c.finSent], len(mine))
		}
	case stFIN:
		if !has(cl.ACK, c.expectedAck()) {
			return r.fail("connection %s: FIN (seq %d) was not answered with an acknowledgement of %d (got %d frame(s) for this connection)", c.key(), c.spec.ISN+1+uint32(c.sent), c.expectedAck(), len(mine))
		}
	}
	if c.srvFin && !c.finAcked && c.spec.AckServerFin {
		c.finAcked = true
		f := cl.TCPFields{Sport: c.spec.Sport, Dport: c.spec.Dport, DataOff: -1, Window: 64240, Seq: c.spec.ISN + 1 + uint32(c.sent), Ack: c.srvNext, Flags: cl.ACK}
		if c.finSent {
			f.Seq++
		}
		r.logf("-> %s ACK of the listener's FIN", c.key())
		tx, err := r.inject(c, r.l.TCPFrame(c.peer, f))
		if err != nil {
			return err
		}
		if _, err := r.absorb(c, c.expectedAck(), tx); err != nil {
			return err
		}
	}
	return nil
}

// finish checks the events once every connection has sent everything.
func (r *runner) finish() error {
	deadline := 2 * time.Second // with the barrier the events are already there
	if r.async {
		deadline = 6 * time.Second
	}
	r.k.WaitFor(deadline, func(evs []cl.Ev) bool {
		for _, c := range r.conns {
			if len(r.eventOf(c, evs)) <= c.chainPos {
				return false
			}
		}
		return true
	})
	tx, err := r.k.Drain()
	if err != nil {
		return fmt.Errorf("infra: %v", err)
	}
	if _, err := r.absorb(nil, 0, tx); err != nil {
		return err
	}
	evs := r.k.Events()
	for _, c := range r.conns {
		mine := r.eventOf(c, evs)
		if len(mine) > c.chainPos {
			mine = mine[c.chainPos:] // the events of the earlier connections on this tuple came first
			if c.chainPos > 0 || r.hasSuccessor(c) {
				mine = mine[:1]
			}
		} else {
			mine = nil
		}
		if len(mine) == 0 {
			if r.async {
				return scheduleErr{fmt.Errorf("connection %s: no event within %v without barriers (a wake-up lost before the port handler parked delays it by 60 s)", c.key(), deadline)}
			}
			return r.fail("connection %s (handshake, %d data bytes in %d segments, FIN) is not reported: no event with source %s:%d and destination %s:%d within %v (events seen: %d)", c.key(), len(c.stream), len(c.spec.Segs), c.peer.IP, c.spec.Sport, r.l.IP, c.spec.Dport, deadline, len(evs))
		}
		first := c.pushEnd
		if first < 0 {
			first = len(c.stream) // the FIN pushes everything
		}
		for _, e := range mine {
			if !e.Has("payload-hex") {
				continue
			}
			p, err := hex.DecodeString(e.Str("payload-hex"))
			if err != nil {
				return r.fail("connection %s: event payload-hex %q is not hex", c.key(), e.Str("payload-hex"))
			}
			if !bytes.HasPrefix(c.stream, p) {
				return r.fail("connection %s: event payload (%d bytes, %x...) is not a prefix of the client's byte stream (%d bytes, %x...)", c.key(), len(p), head(p), len(c.stream), head(c.stream))
			}
			if len(p) < first && r.async {
				return scheduleErr{fmt.Errorf("connection %s: without barriers the port handler's read returned %d bytes before the first pushed segment (ends at %d) had arrived", c.key(), len(p), first)}
			}
			if len(p) < first {
				return r.fail("connection %s: event payload has %d bytes, the first pushed segment ends at stream offset %d", c.key(), len(p), first)
			}
		}
	}
	return nil
}

func (r *runner) hasSuccessor(c *connRun) bool {
	for _, x := range r.conns {
		if x != c && x.key() == c.key() && x.chainPos > c.chainPos {
			return true
		}
	}
	return false
}

func head(b []byte) []byte {
	if len(b) > 16 {
		return b[:16]
	}
	return b
}

// build turns the scenario's connection specs into reference clients.
func (r *runner) build(sc scenario) error {
	last := map[string]*connRun{}
	for i, s := range sc.Conns {
		c, err := newConnRun(s)
		if err != nil {
			return fmt.Errorf("infra: bad scenario: %v", err)
		}
		if s.After < 0 || s.After > i {
			return fmt.Errorf("infra: bad scenario: connection %d starts after connection %d", i+1, s.After)
		}
		if s.After > 0 {
			c.after = r.conns[s.After-1]
			r.async = false // reuse is only defined after a completed connection: needs the barriers
		}
		if prev := last[c.key()]; prev != nil {
			if c.after != prev {
				return fmt.Errorf("infra: bad scenario: connection %s twice at the same time", c.key())
			}
			c.chainPos = prev.chainPos + 1
		}
		last[c.key()] = c
		r.conns = append(r.conns, c)
	}
	return nil
}

// run executes the scenario on a fresh canary in ch.
func run(l cl.Local, ch *cl.Child, sc scenario) error {
	k, err := ch.New(canaryConfig(l))
	if err != nil {
		return fmt.Errorf("infra: %v", err)
	}
	defer k.Close()
	r := &runner{l: l, k: k, async: sc.Async}
	if err := r.build(sc); err != nil {
		return err
	}
	for _, ci := range sc.Order {
		if ci < 0 || ci >= len(r.conns) {
			continue
		}
		c := r.conns[ci]
		if !c.eligible() {
			continue
		}
		if err := r.stepConn(c); err != nil {
			return err
		}
	}
	for more := true; more; {
		more = false
		for _, c := range r.conns {
			if c.eligible() {
				more = true
				if err := r.stepConn(c); err != nil {
					return err
				}
			}
		}
	}
	return r.finish()
}

// ---------------------------------------------------------------------------------
// child management + reproducibility filter

type host struct {
	mu   sync.Mutex
	ch   *cl.Child
	made int
}

func (h *host) get() (*cl.Child, error) {
	h.mu.Lock()
	defer h.mu.Unlock()
	if h.ch == nil || h.ch.Dead() || h.made >= 400 {
		if h.ch != nil {
			h.ch.Kill()
		}
		ch, err := cl.StartChild()
		if err != nil {
			return nil, err
		}
		h.ch = ch
		h.made = 0
	}
	h.made++
	return h.ch, nil
}

func (h *host) close() {
	h.mu.Lock()
	defer h.mu.Unlock()
	if h.ch != nil {
		h.ch.Kill()
		h.ch = nil
	}
}

func isInfra(err error) bool { return err != nil && strings.HasPrefix(err.Error(), "infra:") }

// check runs the scenario; a failure is re-run on a fresh canary and reported only when
// it fails again (the handler goroutines' schedule is not owned by the harness).
func check(r *vlib.Run, l cl.Local, h *host, sc scenario) (verdict error, infra error) {
	var first error
	infraRetries := 0
	for attempt := 0; attempt < 2; attempt++ {
		ch, err := h.get()
		if err != nil {
			return nil, err
		}
		err = run(l, ch, sc)
		if se, ok := err.(scheduleErr); ok {
			r.Flaky(se.Error())
			r.Label("async/schedule-dependent-outcome", 1)
			return nil, nil
		}
		if err == nil {
			if first != nil {
				r.Flaky(fmt.Sprintf("scenario failed once, passed on re-run: %v", first))
			}
			return nil, nil
		}
		if isInfra(err) {
			if ch.Dead() {
				// the child died under a scenario of well-formed frames: confirm through the real loop? the
				// frames went through InjectFrame under recover, so a dead child is a fatal error
				// (e.g. concurrent map write) - report it as the listener's failure with its banner
				err = fmt.Errorf("the canary process died while handling well-formed connections: %s", ch.Death())
			} else if infraRetries == 0 {
				// harness trouble (a barrier that timed out on an overloaded machine): once more on a fresh child
				infraRetries++
				h.close()
				attempt--
				continue
			} else {
				return nil, err
			}
		}
		if first == nil {
			first = err
		} else {
			return fmt.Errorf("%v [also failed on the first attempt: %s]", err, strings.SplitN(first.Error(), " || ", 2)[0]), nil
		}
	}
	return first, nil
}

// ---------------------------------------------------------------------------------
// generators

var isnValues = []uint32{0, 1, 1<<31 - 1, 1 << 31, 1<<32 - 2, 1<<32 - 1}

func isnClass(v uint32) string {
	for _, b := range isnValues {
		if v == b {
			return fmt.Sprintf("%#x", v)
		}
	}
	if v > 1<<32-4100 {
		return "wraps-in-stream"
	}
	return "random"
}

var decodedPorts = []uint16{23, 80, 443, 445, 1433, 6379, 9200}
var undecodedPorts = []uint16{8080, 1000, 1, 65535, 21, 3389, 40000}

func filler(rt *rapid.T, n int, label string) []byte {
	kind := rapid.IntRange(0, 2).Draw(rt, label+"-kind")
	b := make([]byte, n)
	switch kind {
	case 0:
		for i := range b {
			b[i] = "abcdefghijklmnopqrstuvwxyz0123456789"[(i*7+n)%36]
		}
	case 1:
		seed := rapid.Byte().Draw(rt, label+"-seed")
		for i := range b {
			b[i] = seed + byte(i*13)
		}
	default:
		b = rapid.SliceOfN(rapid.Byte(), n, n).Draw(rt, label)
	}
	return b
}

func alnum(b []byte) []byte {
	out := make([]byte, len(b))
	for i, c := range b {
		out[i] = "abcdefghijklmnopqrstuvwxyz0123456789"[int(c)%36]
	}
	return out
}

// conformant builds a protocol-conformant first flight for a decoded port with about n
// bytes (exactly n where the format allows).
func conformant(rt *rapid.T, port uint16, n int) []byte {
	switch port {
	case 80, 9200:
		if rapid.Bool().Draw(rt, "post") {
			head := "POST /_search HTTP/1.1\r\nHost: sensor\r\nContent-Type: application/json\r\nContent-Length: %d\r\n\r\n"
			body := n - len(head) - 2
			if body < 0 {
				body = 0
			}
			return append([]byte(fmt.Sprintf(head, body)), alnum(filler(rt, body, "body"))...)
		}
		head := "GET /"
		tail := " HTTP/1.1\r\nHost: sensor\r\nUser-Agent: verif\r\nAccept: */*\r\n\r\n"
		path := n - len(head) - len(tail)
		if path < 0 {
			path = 0
		}
		return []byte(head + string(alnum(filler(rt, path, "path"))) + tail)
	case 443:
		ext := n - 54
		if ext < 0 {
			ext = 0
		}
		if ext > 0 && ext < 9 {
			ext = 9
		}
		var hello []byte
		hello = append(hello, 0x03, 0x03)
		hello = append(hello, filler(rt, 32, "random")...)
		hello = append(hello, 0)                                  // session id
		hello = append(hello, 0, 4, 0x13, 0x01, 0xc0, 0x2f, 1, 0) // suites, null compression
		if ext > 0 {
			name := alnum(filler(rt, ext-9, "sni"))
			sni := append([]byte{0, 0, byte((len(name) + 5) >> 8), byte(len(name) + 5), byte((len(name) + 3) >> 8), byte(len(name) + 3), 0, byte(len(name) >> 8), byte(len(name))}, name...)
			hello = append(hello, byte(len(sni)>>8), byte(len(sni)))
			hello = append(hello, sni...)
		}
		hs := append([]byte{1, byte(len(hello) >> 16), byte(len(hello) >> 8), byte(len(hello))}, hello...)
		return append([]byte{0x16, 0x03, 0x01, byte(len(hs) >> 8), byte(len(hs))}, hs...)
	case 445:
		body := n - 4 - 64
		if body < 36 {
			body = 36
		}
		smb := make([]byte, 64+body)
		copy(smb, []byte{0xfe, 'S', 'M', 'B', 64, 0})
		smb[64], smb[65] = 36, 0 // negotiate request structure size
		copy(smb[64+36:], filler(rt, body-36, "dialects"))
		return append([]byte{0, byte(len(smb) >> 16), byte(len(smb) >> 8), byte(len(smb))}, smb...)
	case 1433:
		data := n - 8
		if data < 26 {
			data = 26
		}
		p := make([]byte, 8+data)
		p[0], p[1] = 0x12, 0x01
		p[2], p[3] = byte(len(p)>>8), byte(len(p))
		p[6] = 1
		copy(p[8:], []byte{0, 0, 11, 0, 6, 1, 0, 17, 0, 1, 0xff, 9, 0, 0, 0, 0, 0, 0})
		copy(p[8+18:], filler(rt, data-18, "tds"))
		return p
	case 6379:
		head := "*2\r\n$3\r\nGET\r\n$%d\r\n"
		kl := n - 20
		if kl < 1 {
			kl = 1
		}
		return []byte(fmt.Sprintf(head, kl) + string(alnum(filler(rt, kl, "key"))) + "\r\n")
	case 23:
		neg := []byte{0xff, 0xfb, 0x18, 0xff, 0xfb, 0x1f, 0xff, 0xfd, 0x03}
		txt := n - len(neg) - 2
		if txt < 0 {
			txt = 0
		}
		return append(append(neg, alnum(filler(rt, txt, "login"))...), '\r', '\n')
	}
	return filler(rt, n, "raw")
}

func genConn(rt *rapid.T, idx int, taken map[string]bool, forced *connSpec) connSpec {
	var c connSpec
	for try := 0; ; try++ {
		c.Client = rapid.IntRange(0, len(clients)-1).Draw(rt, "client")
		if rapid.IntRange(0, 2).Draw(rt, "decoded") > 0 {
			c.Dport = rapid.SampledFrom(decodedPorts).Draw(rt, "dport")
		} else {
			c.Dport = rapid.SampledFrom(undecodedPorts).Draw(rt, "dport")
		}
		c.Sport = rapid.SampledFrom([]uint16{1000, 1001, 40000, 65535, 1, 80, 443, 8080, 23, 6379, 33333}).Draw(rt, "sport")
		if forced != nil {
			// port-pair classes relative to an earlier connection of the same peer
			switch rapid.IntRange(0, 3).Draw(rt, "pair") {
			case 0: // mirrored
				c.Client, c.Sport, c.Dport = forced.Client, forced.Dport, forced.Sport
			case 1: // same destination port, other source port
				c.Client, c.Dport = forced.Client, forced.Dport
			case 2: // equal ports
				c.Client, c.Sport = forced.Client, c.Dport
			}
		}
		key := fmt.Sprintf("%d/%d/%d", c.Client, c.Sport, c.Dport)
		if c.Sport != 22 && c.Dport != 22 && c.Sport != 0 && c.Dport != 0 && !taken[key] {
			taken[key] = true
			break
		}
		if try > 50 {
			c.Client, c.Sport, c.Dport = idx%len(clients), uint16(50000+idx), 8080
			taken[fmt.Sprintf("%d/%d/%d", c.Client, c.Sport, c.Dport)] = true
			break
		}
	}
	switch rapid.IntRange(0, 3).Draw(rt, "isn-kind") {
	case 0, 1:
		c.ISN = rapid.SampledFrom(isnValues).Draw(rt, "isn")
	case 2:
		c.ISN = uint32(1<<32 - 1 - rapid.IntRange(0, 4100).Draw(rt, "isn-below-wrap"))
	default:
		c.ISN = rapid.Uint32().Draw(rt, "isn")
	}
	n := rapid.SampledFrom([]int{0, 1, 2, 3, 7, 64, 100, 255, 256, 511, 1000, 1459, 1460, 1461, 2047, 2048, 2049, 2920, 3999, 4000}).Draw(rt, "size")
	if rapid.Bool().Draw(rt, "any-size") {
		n = rapid.IntRange(0, 4000).Draw(rt, "n")
	}
	var stream []byte
	isDecoded := false
	for _, p := range decodedPorts {
		if p == c.Dport {
			isDecoded = true
		}
	}
	if isDecoded {
		if n < 1 {
			n = 1
		}
		stream = conformant(rt, c.Dport, n)
		if len(stream) > 4000 {
			stream = stream[:4000]
		}
	} else {
		stream = filler(rt, n, "stream")
	}
	c.Stream = hex.EncodeToString(stream)
	if len(stream) > 0 {
		nseg := rapid.IntRange(1, 8).Draw(rt, "segments")
		if nseg > len(stream) {
			nseg = len(stream)
		}
		cuts := map[int]bool{}
		for len(cuts) < nseg-1 {
			cuts[rapid.IntRange(1, len(stream)-1).Draw(rt, "cut")] = true
		}
		var cs []int
		for k := range cuts {
			cs = append(cs, k)
		}
		sort.Ints(cs)
		cs = append(cs, len(stream))
		last := 0
		for _, k := range cs {
			c.Segs = append(c.Segs, segSpec{Len: k - last, PSH: rapid.IntRange(0, 2).Draw(rt, "psh") == 0})
			last = k
		}
		if rapid.IntRange(0, 3).Draw(rt, "psh-last") > 0 {
			c.Segs[len(c.Segs)-1].PSH = true
		}
		c.FinOnLast = rapid.IntRange(0, 3).Draw(rt, "fin-on-last") == 0
	}
	c.AckServerFin = rapid.Bool().Draw(rt, "ack-server-fin")
	// link-layer framing: exact, padded to the Ethernet minimum, or a trailer of a
	// boundary-biased length (1, 2, what pads a bare ACK to 60 and one less / more, longer)
	c.Trailer = rapid.SampledFrom([]int{0, 0, 0, -1, -1, -1, 1, 2, 5, 6, 7, 46, 300}).Draw(rt, "trailer")
	return c
}

func genScenario(rt *rapid.T, maxConns int) scenario {
	var sc scenario
	n := rapid.IntRange(1, maxConns).Draw(rt, "connections")
	taken := map[string]bool{}
	for i := 0; i < n; i++ {
		var forced *connSpec
		if i > 0 && rapid.IntRange(0, 2).Draw(rt, "related") == 0 {
			forced = &sc.Conns[rapid.IntRange(0, i-1).Draw(rt, "related-to")]
		}
		sc.Conns = append(sc.Conns, genConn(rt, i, taken, forced))
	}
	// history: a new connection on the 4-tuple of a completed one (or on a tuple that
	// differs in one field). The earlier connection is made to end the way the statement's
	// "completed connection" does: everything pushed, FIN on its own, so that the listener
	// has closed first and its entry went through FIN-WAIT to TIME-WAIT.
	if rapid.IntRange(0, 2).Draw(rt, "history") == 0 {
		reuse := rapid.IntRange(1, 3).Draw(rt, "reconnects")
		for j := 0; j < reuse && len(sc.Conns) < 6; j++ {
			pi := rapid.IntRange(0, len(sc.Conns)-1).Draw(rt, "reconnect-after")
			// follow the chain to its newest member
			for k := range sc.Conns {
				if sc.Conns[k].After == pi+1 && sc.Conns[k].Client == sc.Conns[pi].Client && sc.Conns[k].Sport == sc.Conns[pi].Sport && sc.Conns[k].Dport == sc.Conns[pi].Dport {
					pi = k
				}
			}
			prev := &sc.Conns[pi]
			if len(prev.Segs) == 0 {
				continue
			}
			prev.Segs[len(prev.Segs)-1].PSH = true
			prev.FinOnLast = false
			nc := genConn(rt, len(sc.Conns), map[string]bool{}, nil)
			nc.Client, nc.Sport = prev.Client, prev.Sport
			if nc.Dport != prev.Dport {
				// keep the stream matching the port's protocol: take the predecessor's port and a fresh stream of its kind
				nc.Dport = prev.Dport
				nc.Stream, nc.Segs = prev.Stream, append([]segSpec(nil), prev.Segs...)
				nc.FinOnLast = false
			}
			switch rapid.IntRange(0, 4).Draw(rt, "differs") {
			case 0: // other source port
				nc.Sport = prev.Sport + 1
				if nc.Sport == 22 || nc.Sport == 0 {
					nc.Sport = 1025
				}
			case 1: // other peer
				nc.Client = (prev.Client + 1) % len(clients)
			}
			key := fmt.Sprintf("%d/%d/%d", nc.Client, nc.Sport, nc.Dport)
			same := nc.Client == prev.Client && nc.Sport == prev.Sport
			if !same && taken[key] {
				continue
			}
			taken[key] = true
			nc.After = pi + 1
			sc.Conns = append(sc.Conns, nc)
		}
		n = len(sc.Conns)
	}
	if n > 1 {
		total := 0
		for _, c := range sc.Conns {
			total += 3 + len(c.Segs)
		}
		sc.Order = rapid.SliceOfN(rapid.IntRange(0, n-1), 0, total+total/2).Draw(rt, "order")
	}
	sc.Async = rapid.IntRange(0, 5).Draw(rt, "async") == 0
	for _, c := range sc.Conns {
		if c.After > 0 {
			sc.Async = false
		}
	}
	return sc
}

func fingerprint(sc scenario) (label, fp string) {
	nontrivial := false
	var parts []string
	for _, c := range sc.Conns {
		par := ""
		for _, s := range c.Segs {
			par += map[bool]string{true: "o", false: "e"}[s.Len%2 == 1]
		}
		if len(c.Segs) >= 1 {
			nontrivial = true
		}
		parts = append(parts, fmt.Sprintf("%s/%d/%s/fin-on-last=%v/%d>%d", isnClass(c.ISN), len(c.Segs), par, c.FinOnLast, c.Sport, c.Dport))
	}
	label = fmt.Sprintf("conns=%d", len(sc.Conns))
	for _, c := range sc.Conns {
		if c.After > 0 {
			p := sc.Conns[c.After-1]
			if p.Client == c.Client && p.Sport == c.Sport && p.Dport == c.Dport {
				label = "history-same-tuple/" + label
			} else {
				label = "history-near-tuple/" + label
			}
			break
		}
	}
	if sc.Async {
		label += "/async"
	}
	if !nontrivial {
		return label, ""
	}
	return label, fmt.Sprintf("%d|%s", len(sc.Conns), strings.Join(parts, ","))
}

const ruleText = "1..4 simultaneous connections to a hooked canary (InjectFrame/DrainTx in a child): client ISN from {0,1,2^31-1,2^31,2^32-2,2^32-1}, just below the wrap, or random; ports from an alphabet with the decoded ports 23/80/443/445/1433/6379/9200 (protocol-conformant first flights: telnet negotiation, HTTP GET/POST, TLS ClientHello, SMB2 negotiate, TDS prelogin, RESP) and undecoded ports (arbitrary bytes), mirrored / equal / shared port pairs of one peer; streams of 0..4000 bytes in 1..8 in-order segments of odd and even length, PSH placement, FIN alone or on the last segment, client acknowledging the listener's FIN or not; per connection the client's frames end with the IP datagram, are padded to the 60-byte Ethernet minimum (bare ACKs, FINs, segments of 1..5 bytes) or carry a link-layer trailer of 1/2/5/6/7/46/300 bytes, which is not part of the segment; rapid-drawn frame interleavings plus exhaustive interleavings of short scripts. " +
	"Oracle: reference client + independent decoder/RFC 1071 verifier: SYN-ACK acks ISN+1, every data segment acked with exactly ISN+1+bytes (mod 2^32), FIN acked, every emitted frame addressed to the right client MAC/IP/port from the probed address/port with valid IPv4 and TCP checksums, one event per connection with the client's addresses/ports whose payload (if any) is a prefix of the stream containing the first pushed segment. non-trivial = a connection completes the handshake and sends >= 1 data segment; distinct by (#connections, ISN class, segment count, length parities, FIN placement, port pair)"

func TestScenarios(t *testing.T) {
	r := vlib.Open(prop)
	l := env(t)
	h := &host{}
	defer h.close()
	var sc scenario
	if vlib.ReplayCase("TestScenarios", &sc) {
		verr, infra := check(r, l, h, sc)
		if infra != nil {
			t.Fatalf("infra: %v", infra)
		}
		if verr != nil {
			r.Violation(t, "TestScenarios", sc, verr.Error())
		}
		return
	}
	r.Rule(ruleText)
	box := &cl.Infra{}
	r.Rapid(t, "TestScenarios", r.Pick(1200, 9000), func(rt *rapid.T) {
		if box.Err() != nil {
			rapid.Bool().Draw(rt, "skipped-after-infra-error")
			return
		}
		sc := genScenario(rt, 4)
		label, fp := fingerprint(sc)
		r.Case("scenario/"+label, fp, func() interface{} { return sc })
		for _, c := range sc.Conns {
			r.Label(fmt.Sprintf("dport/%d", c.Dport), 1)
			r.Label("isn/"+isnClass(c.ISN), 1)
			switch {
			case c.Trailer < 0:
				r.Label("framing/padded-to-60", 1)
			case c.Trailer > 0:
				r.Label("framing/trailer", 1)
			default:
				r.Label("framing/exact", 1)
			}
		}
		verr, infra := check(r, l, h, sc)
		if infra != nil {
			box.Set(infra)
			return
		}
		if verr != nil {
			r.Fail(rt, "TestScenarios", sc, "%v", verr)
		}
	})
	if e := box.Err(); e != nil {
		t.Fatalf("infra: %v", e)
	}
}

// TestInterleavings enumerates every interleaving of short connection scripts for the
// port-pair classes the state table has to keep apart.
func TestInterleavings(t *testing.T) {
	r := vlib.Open(prop)
	l := env(t)
	h := &host{}
	defer h.close()
	var sc scenario
	if vlib.ReplayCase("TestInterleavings", &sc) {
		verr, infra := check(r, l, h, sc)
		if infra != nil {
			t.Fatalf("infra: %v", infra)
		}
		if verr != nil {
			r.Violation(t, "TestInterleavings", sc, verr.Error())
		}
		return
	}
	if vlib.Replaying() {
		return
	}
	r.Rule(ruleText)
	mk := func(client int, sport, dport uint16, isn uint32, data string, finOnLast bool) connSpec {
		c := connSpec{Client: client, Sport: sport, Dport: dport, ISN: isn, Stream: hex.EncodeToString([]byte(data)), FinOnLast: finOnLast, AckServerFin: true}
		if len(data) > 0 {
			c.Segs = []segSpec{{Len: len(data), PSH: true}}
		}
		return c
	}
	framed := func(c connSpec, trailer int) connSpec { c.Trailer = trailer; return c }
	type pairing struct {
		name string
		a, b connSpec
	}
	pairs := []pairing{
		{"two-peers-same-ports", mk(0, 1000, 8080, 0, "hello", false), mk(1, 1000, 8080, 1<<32-1, "world!", false)},
		{"one-peer-two-source-ports", mk(0, 1000, 8080, 1<<31, "abc", false), mk(0, 1001, 8080, 1<<31-1, "defg", false)},
		{"mirrored-ports", mk(0, 1000, 8080, 7, "mirror-a", false), mk(0, 8080, 1000, 1<<32-2, "mirror-b!", false)},
		{"equal-ports-vs-other", mk(0, 8080, 8080, 1, "equal", false), mk(0, 1000, 8080, 99, "other!", false)},
		{"shared-source-port", mk(0, 1000, 8080, 5, "one", false), mk(0, 1000, 1000, 6, "two2", false)},
		{"fin-with-data", mk(2, 40000, 8080, 1<<32-3, "fin+data", true), mk(3, 40000, 6379, 3, "*1\r\n$4\r\nPING\r\n", true)},
		{"padded-to-60-vs-exact", framed(mk(0, 1000, 8080, 1<<32-2, "abc", false), -1), mk(1, 1000, 8080, 9, "defgh", false)},
		{"trailers", framed(mk(2, 1002, 8080, 1<<31-1, "x", true), 6), framed(mk(2, 1003, 8080, 4, "four", false), 1)},
	}
	si, sn := r.Shard()
	var count int64
	var idx int
	seen := map[string]bool{}
	for _, p := range pairs {
		na, nb := 3+len(p.a.Segs), 3+len(p.b.Segs)
		if p.a.FinOnLast {
			na--
		}
		if p.b.FinOnLast {
			nb--
		}
		var orders [][]int
		var rec func(a, b int, cur []int)
		rec = func(a, b int, cur []int) {
			if a == 0 && b == 0 {
				orders = append(orders, append([]int(nil), cur...))
				return
			}
			if a > 0 {
				rec(a-1, b, append(cur, 0))
			}
			if b > 0 {
				rec(a, b-1, append(cur, 1))
			}
		}
		rec(na, nb, nil)
		for _, o := range orders {
			idx++
			if idx%sn != si {
				continue
			}
			sc := scenario{Conns: []connSpec{p.a, p.b}, Order: o}
			count++
			r.Case("interleaving/"+p.name, fmt.Sprintf("%s/%v", p.name, o), func() interface{} { return sc })
			verr, infra := check(r, l, h, sc)
			if infra != nil {
				t.Fatalf("infra: %v", infra)
			}
			if verr != nil {
				sig := p.name + "|" + strings.SplitN(verr.Error(), "||", 2)[0]
				// one report per pairing and failure text (digits dropped)
				sig = strings.Map(func(c rune) rune {
					if c >= '0' && c <= '9' {
						return -1
					}
					return c
				}, sig)
				if !seen[sig] && len(seen) < 6 {
					seen[sig] = true
					r.Violation(t, "TestInterleavings", sc, verr.Error())
				}
			}
		}
	}
	if len(seen) == 0 {
		r.Note("every interleaving of two 4-frame connection scripts enumerated for %d port-pair classes (this shard: %d)", len(pairs), count)
	}
}
