package c16

import (
	"fmt"
	"strings"
	"sync"
	"sync/atomic"
	"testing"

	"pgregory.net/rapid"

	"verif/vlib"
)

var (
	infraMu  sync.Mutex
	infraErr error
)

func setInfra(err error) {
	infraMu.Lock()
	if infraErr == nil {
		infraErr = err
	}
	infraMu.Unlock()
}

func getInfra() error {
	infraMu.Lock()
	defer infraMu.Unlock()
	return infraErr
}

// reruns: how often a failing case is played again before it is called irreproducible.
const reruns = 6

// checkSession plays the case; since the outcome may depend on goroutine schedules the
// harness does not own, a failure is reported only when it shows again when the same
// case is played again (otherwise it is recorded as flaky_schedule).
func checkSession(r *vlib.Run, c sessCase) error {
	// the first play searches with short waits; whatever it reports is measured again
	// in patient plays (long waits) before it counts
	err := runSession(c, false)
	if err == nil {
		return nil
	}
	first, ok := err.(*failure)
	if !ok {
		return err // infra
	}
	var last *failure
	runs := 1
	for runs < 1+reruns && last == nil {
		e := runSession(c, true)
		runs++
		if e == nil {
			continue
		}
		f, ok := e.(*failure)
		if !ok {
			return e
		}
		last = f
	}
	if last != nil {
		sessionViolated.Store(true)
		return fmt.Errorf("%s [failed again in play %d of this case; first play: %s]", last.msg, runs, first.kind)
	}
	r.Flaky(fmt.Sprintf("%s: %s (not reproduced in %d patient plays)", first.kind, first.msg, reruns))
	return nil
}

// sessionViolated: a session test of this process has reported a violation; the other
// session tests then stand back (their failing plays are slow and would say the same).
var sessionViolated atomic.Bool

// interleaved: two connections each carry data while both are open.
func interleaved(c sessCase) bool {
	n := len(c.Conns)
	open := make([]bool, n)
	ann := make([]bool, n)
	// carried[a][b]: a data message (n>0) was sent on a while b was open too
	carried := make([][]bool, n)
	for i := range carried {
		carried[i] = make([]bool, n)
	}
	for _, s := range c.Steps {
		if s.C < 0 || s.C >= n {
			continue
		}
		switch s.Op {
		case "hello":
			if !ann[s.C] && c.Conns[s.C].SameAs < 0 {
				ann[s.C], open[s.C] = true, true
			}
		case "eof", "sclose", "race":
			open[s.C] = false
		case "data":
			if open[s.C] && s.N > 0 {
				for b := 0; b < n; b++ {
					if b != s.C && open[b] {
						carried[s.C][b] = true
					}
				}
			}
		}
	}
	for a := 0; a < n; a++ {
		for b := 0; b < n; b++ {
			if a != b && carried[a][b] && carried[b][a] {
				return true
			}
		}
	}
	return false
}

func genConn(rt *rapid.T) connSpec {
	return connSpec{
		V6:       rapid.IntRange(0, 2).Draw(rt, "v6") == 0,
		LOct:     rapid.IntRange(0, len(octets)-1).Draw(rt, "lip"),
		LPort:    rapid.IntRange(0, len(tcpPorts)-1).Draw(rt, "lport"),
		ROct:     rapid.IntRange(0, len(octets)-1).Draw(rt, "rip"),
		RPort:    rapid.OneOf(rapid.IntRange(0, 65535), rapid.SampledFrom([]int{0, 1, 2, 4, 22, 40, 400, 4000, 443, 1023, 32768, 6553, 65535})).Draw(rt, "rport"),
		Mapped:   rapid.IntRange(0, 3).Draw(rt, "mapped") == 0,
		ReadBuf:  rapid.SampledFrom([]int{700, 700, 64, 7, 4096, 65536, 1}).Draw(rt, "readbuf"),
		DelayMs:  rapid.SampledFrom([]int{0, 0, 0, 0, 1, 3}).Draw(rt, "delay"),
		Greeting: rapid.SampledFrom([]int{0, 0, 0, 5, 300}).Draw(rt, "greeting"),
		Reuse:    rapid.Bool().Draw(rt, "reuse"),
		SameAs:   -1,
	}
}

// portPairs: service ports q = p with the decimal digit d appended.
func portPairs(d int) [][2]int {
	var out [][2]int
	for _, p := range tcpPorts {
		if portIndex(p*10+d) >= 0 {
			out = append(out, [2]int{p, p*10 + d})
		}
	}
	return out
}

// relations between the address pairs of two connections of one session. Every relation
// yields two DIFFERENT (local, remote) pairs, i.e. two connections that must not
// influence each other, whose textual forms are as confusable as possible.
var relations = []string{
	"same-remote-lport", // same remote, same local IP, local ports p and p with a digit appended
	"same-remote-lip",   // same remote, same local port, local IPs o and o with a digit in front
	"same-local-rport",  // same local, same remote IP, remote ports p and p with a digit appended
	"same-local-rip",    // same local, same remote port, remote IPs o and o with a digit in front
	"swapped",           // local of one is remote of the other and vice versa
	"concat-lr",         // local.String()+remote.String() is the same string for both
	"concat-rl",         // remote.String()+local.String() is the same string for both
}

// relate derives a connection from base (which it may adjust) under relation rel; pick
// selects among the instances of the relation. ok is false when base cannot take part.
func relate(base *connSpec, rel string, pick int) (connSpec, bool) {
	d := *base
	d.SameAs = -1
	d.Rel = rel
	sh := shifts[mod(pick, len(shifts))]
	switch rel {
	case "same-remote-lport":
		var all [][2]int
		for dg := 0; dg <= 9; dg++ {
			all = append(all, portPairs(dg)...)
		}
		pp := all[mod(pick, len(all))]
		base.LPort, d.LPort = portIndex(pp[0]), portIndex(pp[1])
	case "same-remote-lip":
		base.LOct, d.LOct = octIndex(sh.lo), octIndex(sh.hi)
	case "same-local-rport":
		rp := []int{4, 40, 400, 4000, 6553, 2, 22, 1}[mod(pick, 8)]
		base.RPort, d.RPort = rp, rp*10+mod(pick/8, 6)
	case "same-local-rip":
		base.ROct, d.ROct = octIndex(sh.lo), octIndex(sh.hi)
	case "swapped":
		j := mod(pick, len(tcpPorts))
		base.RPort = tcpPorts[j]
		d.LOct, d.LPort, d.ROct, d.RPort = base.ROct, j, base.LOct, tcpPorts[mod(base.LPort, len(tcpPorts))]
	case "concat-lr":
		pps := portPairs(sh.d)
		if len(pps) == 0 {
			return d, false
		}
		pp := pps[mod(pick/len(shifts), len(pps))]
		base.V6, d.V6 = false, false
		base.LPort, d.LPort = portIndex(pp[0]), portIndex(pp[1])
		base.ROct, d.ROct = octIndex(sh.hi), octIndex(sh.lo)
	case "concat-rl":
		rp := []int{4, 40, 400, 4000, 2, 22}[mod(pick/len(shifts), 6)]
		base.V6, d.V6 = false, false
		base.RPort, d.RPort = rp, rp*10+sh.d
		base.LOct, d.LOct = octIndex(sh.hi), octIndex(sh.lo)
	default:
		return d, false
	}
	base.Rel = rel
	return d, true
}

func genSession(rt *rapid.T, maxSteps int) sessCase {
	var c sessCase
	k := rapid.IntRange(1, 4).Draw(rt, "nconns")
	for i := 0; i < k; i++ {
		cs := genConn(rt)
		if i > 0 && rapid.IntRange(0, 9).Draw(rt, "related") < 6 {
			// addresses that are easily confused with those of an earlier connection
			var free []int
			for j := 0; j < i; j++ {
				if c.Conns[j].Rel == "" {
					free = append(free, j)
				}
			}
			if len(free) > 0 {
				j := free[rapid.IntRange(0, len(free)-1).Draw(rt, "base")]
				rel := rapid.SampledFrom(append([]string{"concat-lr", "concat-rl"}, relations...)).Draw(rt, "rel")
				if d, ok := relate(&c.Conns[j], rel, rapid.IntRange(0, 999).Draw(rt, "pick")); ok {
					d.Mapped, d.ReadBuf, d.DelayMs, d.Greeting, d.Reuse = cs.Mapped, cs.ReadBuf, cs.DelayMs, cs.Greeting, cs.Reuse
					cs = d
				}
			}
		}
		c.Conns = append(c.Conns, cs)
	}
	if rapid.IntRange(0, 5).Draw(rt, "dup") == 0 {
		// one more announcement that re-uses the addresses of an earlier connection
		// (possibly in the other wire form of the same IPv4 addresses)
		j := rapid.IntRange(0, k-1).Draw(rt, "dupof")
		d := c.Conns[j]
		d.SameAs = j
		d.Greeting = 0
		d.Rel = ""
		if rapid.Bool().Draw(rt, "dupform") {
			d.Mapped = !d.Mapped
		}
		c.Conns = append(c.Conns, d)
	}
	n := len(c.Conns)
	ann := make([]bool, n)
	open := make([]bool, n)
	budget := make([]int, n)
	for i := range budget {
		budget[i] = 20
	}
	grouped := make([]bool, n)
	for i, cs := range c.Conns {
		if cs.SameAs >= 0 {
			grouped[i], grouped[cs.SameAs] = true, true
		}
	}
	pick := func(label string, pred func(i int) bool) int {
		var cand []int
		for i := 0; i < n; i++ {
			if pred(i) {
				cand = append(cand, i)
			}
		}
		if len(cand) == 0 {
			return -1
		}
		return cand[rapid.IntRange(0, len(cand)-1).Draw(rt, label)]
	}
	nsteps := rapid.IntRange(1, maxSteps).Draw(rt, "nsteps")
	usedUDP := map[int]bool{}
	// both-ends-close windows are expensive (the agent stays away until the listener's
	// sender is stuck): few sessions have them, and those at most twice
	races := 0
	if rapid.IntRange(0, raceOneIn-1).Draw(rt, "races") == raceOneIn/2 { // rapid favours the ends of a range, not its middle
		races = rapid.IntRange(1, 2).Draw(rt, "nraces")
	}
	for len(c.Steps) < nsteps {
		op := rapid.SampledFrom([]string{
			"hello", "hello", "hello",
			"data", "data", "data", "data", "data", "data", "data", "data", "data", "data",
			"eof", "eof", "swrite", "swrite", "udp", "unk-data", "unk-eof", "ping", "sync", "anydata", "anyeof",
			"sclose", "race", "race",
		}).Draw(rt, "op")
		switch op {
		case "sclose":
			// the service closes on its own; what the agent says about this id later
			// (data, end-of-stream) is drawn like for any other closed connection
			i := pick("c", func(i int) bool { return open[i] && !grouped[i] })
			if i < 0 {
				continue
			}
			open[i] = false
			c.Steps = append(c.Steps, step{Op: "sclose", C: i})
		case "race":
			if races == 0 {
				continue
			}
			x := pick("c", func(i int) bool { return open[i] && !grouped[i] })
			if x < 0 {
				continue
			}
			y := pick("y", func(i int) bool { return i != x && open[i] && !grouped[i] })
			if y < 0 {
				continue
			}
			races--
			if rapid.IntRange(0, 3).Draw(rt, "presync") > 0 {
				c.Steps = append(c.Steps, step{Op: "sync", C: -1})
			}
			open[x] = false
			c.Steps = append(c.Steps, step{Op: "race", C: x, Y: y, Variant: rapid.IntRange(0, 1).Draw(rt, "order")})
		case "hello":
			if i := pick("c", func(i int) bool { return !ann[i] }); i >= 0 {
				ann[i], open[i] = true, true
				c.Steps = append(c.Steps, step{Op: "hello", C: i})
			}
		case "data", "anydata":
			i := pick("c", func(i int) bool { return (op == "anydata" || open[i]) && budget[i] > 0 })
			if i < 0 {
				continue
			}
			budget[i]--
			sz := rapid.OneOf(rapid.IntRange(0, 4000), rapid.IntRange(0, 64), rapid.SampledFrom([]int{0, 1, 2, 4000})).Draw(rt, "n")
			c.Steps = append(c.Steps, step{Op: "data", C: i, N: sz})
		case "eof", "anyeof":
			i := pick("c", func(i int) bool { return op == "anyeof" || open[i] })
			if i < 0 {
				continue
			}
			open[i] = false
			c.Steps = append(c.Steps, step{Op: "eof", C: i})
		case "swrite":
			i := pick("c", func(i int) bool { return open[i] && !grouped[i] })
			if i < 0 {
				continue
			}
			sz := rapid.OneOf(rapid.IntRange(0, 200), rapid.IntRange(0, 8000), rapid.SampledFrom([]int{0, 1, 4096, 60000})).Draw(rt, "n")
			c.Steps = append(c.Steps, step{Op: "swrite", C: i, N: sz})
		case "udp":
			s := step{Op: "udp", C: -1,
				V6:    rapid.Bool().Draw(rt, "v6"),
				LPort: rapid.IntRange(0, len(udpPorts)-1).Draw(rt, "lport"),
				RPort: rapid.IntRange(0, 65535).Draw(rt, "rport"),
				N:     rapid.OneOf(rapid.IntRange(0, 1500), rapid.IntRange(0, 4000)).Draw(rt, "n"),
				Reuse: rapid.Bool().Draw(rt, "reuse"),
			}
			for usedUDP[s.RPort] {
				s.RPort = (s.RPort + 1) % 65536
			}
			usedUDP[s.RPort] = true
			nr := rapid.IntRange(0, 2).Draw(rt, "nreplies")
			for j := 0; j < nr; j++ {
				s.Replies = append(s.Replies, rapid.IntRange(0, 1500).Draw(rt, "reply"))
			}
			c.Steps = append(c.Steps, s)
		case "unk-data", "unk-eof":
			i := rapid.IntRange(0, n-1).Draw(rt, "c")
			s := step{Op: op, C: i, Variant: rapid.IntRange(0, 3).Draw(rt, "variant")}
			if op == "unk-data" {
				s.N = rapid.IntRange(0, 300).Draw(rt, "n")
			}
			c.Steps = append(c.Steps, s)
		case "ping":
			c.Steps = append(c.Steps, step{Op: "ping", C: -1})
		case "sync":
			c.Steps = append(c.Steps, step{Op: "sync", C: -1})
		}
	}
	c.Seg = rapid.SampledFrom([]string{"frame3", "frame3", "frame1", "chunks", "chunks"}).Draw(rt, "seg")
	if c.Seg == "chunks" {
		c.Chunks = rapid.SliceOfN(rapid.OneOf(rapid.IntRange(1, 20), rapid.IntRange(1, 5000), rapid.Just(70000)), 1, 6).Draw(rt, "chunks")
	}
	c.Abort = rapid.IntRange(0, 4).Draw(rt, "abort") == 0
	return c
}

func sessLabel(c sessCase) string {
	ids := 0
	dup := ""
	for _, cs := range c.Conns {
		if cs.SameAs < 0 {
			ids++
		} else {
			dup = "+dup"
		}
	}
	end := "shutdown"
	if c.Abort {
		end = "abort"
	}
	rel := ""
	for _, cs := range c.Conns {
		if cs.Rel != "" {
			rel = "/related"
		}
	}
	return fmt.Sprintf("session/ids=%d%s%s/seg=%s/%s", ids, dup, rel, c.Seg, end)
}

func opLabels(r *vlib.Run, c sessCase) {
	seen := map[string]bool{}
	for _, s := range c.Steps {
		if !seen[s.Op] {
			seen[s.Op] = true
			r.Label("op/"+s.Op, 1)
		}
		if s.Op == "swrite" && s.C >= 0 && s.C < len(c.Conns) && c.Conns[s.C].Reuse && !seen["reuse"] {
			seen["reuse"] = true
			r.Label("op/swrite-reused-buffer", 1)
		}
	}
	for _, cs := range c.Conns {
		if cs.Rel != "" && !seen["rel/"+cs.Rel] {
			seen["rel/"+cs.Rel] = true
			r.Label("rel/"+cs.Rel, 1)
		}
	}
}

func replaySession(t *testing.T, r *vlib.Run, name string) bool {
	var c sessCase
	if !vlib.ReplayCase(name, &c) {
		return false
	}
	if err := checkSession(r, c); err != nil {
		if strings.HasPrefix(err.Error(), "infra:") {
			t.Fatalf("%v", err)
		}
		r.Violation(t, name, c, err.Error())
	}
	return true
}

// raceOneIn: about one in so many (fewer: the middle of a range is drawn less often than
// its ends) rapid sessions may contain both-ends-close windows.
const raceOneIn = 50

const sessRule = "session: real agent listener behind server.Run on loopback, scripted agent over libdisco Noise_NK; 1..4 connection ids (+ optionally one re-used/duplicate id), IPv4/IPv6, remote ports 0..65535, <=20 data messages of 0..4000 bytes per connection, eof, service-side writes (0..60000 bytes, greeting at accept), service-side close (the service ends a connection on its own; afterwards it must have read a prefix of what was sent), both-ends-close windows in a few of every thousand sessions (the agent stops reading, another connection's service writes until the listener's sender is stuck, then the service's close and the agent's end-of-stream for one connection overlap in either order, then the agent reads again; the other connections must go on relaying), UDP relays with 0..2 replies, unknown ids (swapped / neighbouring / never announced / after eof), ping, mid-session sync points, final agent disconnect; record segmentation: as the real agent (type|size|body), one record per frame, arbitrary chunk plans; interleaving drawn by rapid; oracle = per-connection byte queue each way; non-trivial = two connections each carry data while both are open"

// identCase: two connections whose address pairs stand in one of the confusable
// relations, played with a fixed interleaved script.
type identCase struct {
	Rel    string `json:"rel"`
	Pick   int    `json:"pick"`
	V6     bool   `json:"v6"`
	MapA   bool   `json:"mapped_a"`
	MapB   bool   `json:"mapped_b"`
	BFirst bool   `json:"b_first"`
	Seg    string `json:"seg"`
}

func (ic identCase) session() (sessCase, bool) {
	a := connSpec{V6: ic.V6, LOct: 0, ROct: 3, LPort: 0, RPort: 4000, Mapped: ic.MapA, ReadBuf: 700, SameAs: -1, Reuse: true}
	b, ok := relate(&a, ic.Rel, ic.Pick)
	if !ok {
		return sessCase{}, false
	}
	b.Mapped, b.Greeting = ic.MapB, 4
	c := sessCase{Seg: ic.Seg, Conns: []connSpec{a, b}}
	x, y := 0, 1
	if ic.BFirst {
		x, y = 1, 0
	}
	st := func(op string, conn, n int) step { return step{Op: op, C: conn, N: n} }
	c.Steps = []step{
		st("hello", x, 0), st("hello", y, 0),
		st("data", x, 5), st("data", y, 7), st("swrite", y, 31), st("swrite", y, 900), st("swrite", y, 2), st("data", x, 600), st("swrite", x, 17), st("data", y, 1),
		st("sync", -1, 0),
		st("eof", x, 0), // must end x and only x
		st("data", y, 40), st("swrite", y, 12),
		st("sync", -1, 0), // y is still served
		st("data", x, 9),  // x is gone: nobody may see this
		st("data", y, 3),
		st("eof", y, 0),
	}
	return c, true
}

// TestSessionIdentity enumerates the instances of the address relations.
func TestSessionIdentity(t *testing.T) {
	r := vlib.Open(prop)
	if sessionViolated.Load() && !vlib.Replaying() {
		t.Skip("a session violation was already reported by this process")
	}
	var ic identCase
	if vlib.ReplayCase("TestSessionIdentity", &ic) {
		c, ok := ic.session()
		if !ok {
			t.Fatalf("infra: replay names an impossible relation instance")
		}
		if err := checkSession(r, c); err != nil {
			if strings.HasPrefix(err.Error(), "infra:") {
				t.Fatalf("%v", err)
			}
			r.Violation(t, "TestSessionIdentity", ic, err.Error())
		}
		return
	}
	if vlib.Replaying() {
		return
	}
	r.Rule("identity: two simultaneously open connections whose (local, remote) pairs are confusable - same remote with local ports / local IPs that are decimal prefixes of each other (2/22/220, 10/110/210), same local with such remote ports / IPs, swapped roles, pairs whose concatenated textual forms coincide in either order, IPv4 in 4-byte and IPv4-mapped form - every instance x wire forms x opening order x 2 segmentations, fixed interleaved script with data, service writes from a reused buffer, eof of one, further traffic on the other; distinct by construction, all non-trivial")
	si, sn := r.Shard()
	var n int64
	idx := 0
	for _, rel := range relations {
		picks := 48
		for pick := 0; pick < picks; pick++ {
			for form := 0; form < 4; form++ {
				ic := identCase{Rel: rel, Pick: pick, MapA: form&1 == 1, MapB: form&2 == 2, V6: form == 3 && rel != "concat-lr" && rel != "concat-rl"}
				if ic.V6 {
					ic.MapA, ic.MapB = false, false
				} else if form == 3 {
					continue
				}
				idx++
				if idx%sn != si {
					continue
				}
				ic.BFirst = idx/sn%2 == 1
				ic.Seg = []string{"frame3", "frame1"}[idx/sn/2%2]
				c, ok := ic.session()
				if !ok {
					continue
				}
				n++
				if err := checkSession(r, c); err != nil {
					r.Bulk("identity", n, n)
					if strings.HasPrefix(err.Error(), "infra:") {
						t.Fatalf("%v", err)
					}
					r.Violation(t, "TestSessionIdentity", ic, err.Error())
					return
				}
			}
		}
	}
	r.Bulk("identity", n, n)
	r.Sample("identity", identCase{Rel: "concat-lr", Pick: 1, Seg: "frame3"})
}

// TestSessionModel: rapid-drawn sessions against the byte-queue model.
func TestSessionModel(t *testing.T) {
	r := vlib.Open(prop)
	if sessionViolated.Load() && !vlib.Replaying() {
		t.Skip("a session violation was already reported by this process")
	}
	if replaySession(t, r, "TestSessionModel") {
		return
	}
	r.Rule(sessRule)
	maxSteps := r.Pick(60, 120)
	r.Rapid(t, "TestSessionModel", r.Pick(3000, 30000), func(rt *rapid.T) {
		if getInfra() != nil {
			return
		}
		c := genSession(rt, maxSteps)
		fp := ""
		if interleaved(c) {
			fp = vlib.JSON(c)
		}
		r.Case(sessLabel(c), fp, func() interface{} { return c })
		opLabels(r, c)
		if err := checkSession(r, c); err != nil {
			if strings.HasPrefix(err.Error(), "infra:") {
				setInfra(err)
				return
			}
			r.Fail(rt, "TestSessionModel", c, "%v", err)
		}
	})
	raceNotes(r)
	if err := getInfra(); err != nil {
		t.Fatalf("%v", err)
	}
}

// burstCase builds a session in which pairs of connections are opened, the services
// are given time to park in Read, and then each connection's data messages and its
// end-of-stream arrive back to back (one transport record): the schedule in which a
// wake-up can be missed or end-of-stream can overtake buffered bytes.
func burstCase(rounds int, sizes []int, readBuf int, pair bool, endByDisconnect bool, syncFirst bool) sessCase {
	c := sessCase{Seg: "chunks", Chunks: []int{70000}}
	per := 1
	if pair {
		per = 2
	}
	for rd := 0; rd < rounds; rd++ {
		base := len(c.Conns)
		for j := 0; j < per; j++ {
			c.Conns = append(c.Conns, connSpec{V6: (rd+j)%3 == 0, LOct: rd % len(octets), ROct: (rd + 1) % len(octets), LPort: (rd + j) % len(tcpPorts), RPort: 1000 + rd*2 + j, ReadBuf: readBuf, SameAs: -1})
			c.Steps = append(c.Steps, step{Op: "hello", C: base + j})
		}
		c.Steps = append(c.Steps, step{Op: "sync", C: -1})
		for _, n := range sizes {
			for j := 0; j < per; j++ {
				c.Steps = append(c.Steps, step{Op: "data", C: base + j, N: n})
			}
		}
		if syncFirst {
			// the bytes must arrive while the connection stays open and silent
			c.Steps = append(c.Steps, step{Op: "sync", C: -1})
		}
		last := rd == rounds-1
		if !(last && endByDisconnect) {
			for j := 0; j < per; j++ {
				c.Steps = append(c.Steps, step{Op: "eof", C: base + j})
			}
		}
	}
	return c
}

type burstParams struct {
	Rounds  int   `json:"rounds"`
	Sizes   []int `json:"sizes"`
	ReadBuf int   `json:"readbuf"`
	Pair    bool  `json:"pair"`
	Disc    bool  `json:"end_by_disconnect"`
	Sync    bool  `json:"sync_before_eof"`
}

// TestSessionBursts: end-of-stream right behind data, many times per session.
func TestSessionBursts(t *testing.T) {
	r := vlib.Open(prop)
	if sessionViolated.Load() && !vlib.Replaying() {
		t.Skip("a session violation was already reported by this process")
	}
	var bp burstParams
	if vlib.ReplayCase("TestSessionBursts", &bp) {
		if err := checkSession(r, burstCase(bp.Rounds, bp.Sizes, bp.ReadBuf, bp.Pair, bp.Disc, bp.Sync)); err != nil {
			if strings.HasPrefix(err.Error(), "infra:") {
				t.Fatalf("%v", err)
			}
			r.Violation(t, "TestSessionBursts", bp, err.Error())
		}
		return
	}
	r.Rule("bursts: per session 10..40 rounds; each round opens 1 or 2 connections, waits until the services are reading, then sends 1..6 data messages per connection and the end-of-stream (or the disconnect) in one transport record, or the data alone followed by a wait until the services have read it; non-trivial = rounds with 2 connections")
	r.Rapid(t, "TestSessionBursts", r.Pick(300, 3000), func(rt *rapid.T) {
		if getInfra() != nil {
			return
		}
		p := burstParams{
			Rounds:  rapid.IntRange(10, 40).Draw(rt, "rounds"),
			Sizes:   rapid.SliceOfN(rapid.OneOf(rapid.IntRange(1, 64), rapid.IntRange(1, 4000)), 1, 6).Draw(rt, "sizes"),
			ReadBuf: rapid.SampledFrom([]int{700, 64, 4096, 65536}).Draw(rt, "readbuf"),
			Pair:    rapid.Bool().Draw(rt, "pair"),
			Disc:    rapid.Bool().Draw(rt, "disc"),
			Sync:    rapid.Bool().Draw(rt, "sync"),
		}
		fp := ""
		if p.Pair {
			fp = vlib.JSON(p)
		}
		r.Case(fmt.Sprintf("bursts/pair=%v/sync=%v", p.Pair, p.Sync), fp, func() interface{} { return p })
		if err := checkSession(r, burstCase(p.Rounds, p.Sizes, p.ReadBuf, p.Pair, p.Disc, p.Sync)); err != nil {
			if strings.HasPrefix(err.Error(), "infra:") {
				setInfra(err)
				return
			}
			r.Fail(rt, "TestSessionBursts", p, "%v", err)
		}
	})
	if err := getInfra(); err != nil {
		t.Fatalf("%v", err)
	}
}

// bothCloseParams describes a session around both-ends-close windows: N connections are
// opened and carry data; in every round the service of one of them closes it while the
// agent's end-of-stream for the same connection is under way and the (slow) agent is
// not reading; afterwards every other connection must relay in both directions as if
// nothing had happened, and new connections must still be surfaced.
type bothCloseParams struct {
	Conns      int    `json:"conns"`       // 2..4
	Rounds     int    `json:"rounds"`      // 1..Conns-1 windows, each on another connection
	CloseFirst []bool `json:"close_first"` // per round: the service's close is issued before the agent's end-of-stream
	Before     []int  `json:"before"`      // data message sizes sent on every open connection before a window
	After      []int  `json:"after"`       // ... and after it
	PreSync    bool   `json:"presync"`     // wait until the services have read everything before the window
	Late       bool   `json:"late"`        // the agent sends more data for the closed id afterwards (must go nowhere)
	Reopen     bool   `json:"reopen"`      // a new connection is announced after each window
	Disc       bool   `json:"end_by_disconnect"`
	ReadBuf    int    `json:"readbuf"`
	Seg        string `json:"seg"`
	Reuse      bool   `json:"reuse"`
}

func (p bothCloseParams) session() sessCase {
	c := sessCase{Seg: p.Seg}
	if c.Seg == "chunks" {
		c.Chunks = []int{70000}
	}
	add := func() int {
		i := len(c.Conns)
		c.Conns = append(c.Conns, connSpec{V6: i%3 == 1, LOct: i % len(octets), ROct: (i + 3) % len(octets), LPort: i % len(tcpPorts), RPort: 40000 + i, ReadBuf: p.ReadBuf, SameAs: -1, Greeting: 5 * (i % 2), Reuse: p.Reuse})
		c.Steps = append(c.Steps, step{Op: "hello", C: i})
		return i
	}
	var open []int
	for i := 0; i < p.Conns; i++ {
		open = append(open, add())
	}
	traffic := func(sizes []int) {
		for _, n := range sizes {
			for _, i := range open {
				c.Steps = append(c.Steps, step{Op: "data", C: i, N: n})
			}
		}
		for _, i := range open {
			c.Steps = append(c.Steps, step{Op: "swrite", C: i, N: 11 + i})
		}
	}
	c.Steps = append(c.Steps, step{Op: "sync", C: -1})
	for rd := 0; rd < p.Rounds && len(open) >= 2; rd++ {
		traffic(p.Before)
		if p.PreSync {
			c.Steps = append(c.Steps, step{Op: "sync", C: -1})
		}
		x, y := open[0], open[1+rd%(len(open)-1)]
		v := 1
		if rd < len(p.CloseFirst) && p.CloseFirst[rd] {
			v = 0
		}
		c.Steps = append(c.Steps, step{Op: "race", C: x, Y: y, Variant: v})
		open = open[1:]
		if p.Late {
			c.Steps = append(c.Steps, step{Op: "data", C: x, N: 33})
		}
		if p.Reopen {
			open = append(open, add())
		}
		traffic(p.After)
		c.Steps = append(c.Steps, step{Op: "sync", C: -1})
	}
	if !p.Disc {
		for _, i := range open {
			c.Steps = append(c.Steps, step{Op: "eof", C: i})
		}
	}
	return c
}

// raceNotes reports how many both-ends-close windows were played since the last call
// and in how many of them the listener's sender was stuck when the two closes went out.
func raceNotes(r *vlib.Run) {
	w, st, b := raceWindows.Swap(0), raceStalled.Swap(0), raceBlocks.Swap(0)
	if w > 0 {
		r.Label("race/windows", w)
		r.Label("race/windows-with-stuck-sender", st)
		r.Label("race/fill-blocks", b)
	}
	if n := closeErrs.Swap(0); n > 0 {
		r.Note("%d service-side Close calls returned an error or panicked (not judged)", n)
	}
}

// TestSessionBothClose: the service and the agent end the same connection at the same
// time while other connections of the session are open.
func TestSessionBothClose(t *testing.T) {
	r := vlib.Open(prop)
	if sessionViolated.Load() && !vlib.Replaying() {
		t.Skip("a session violation was already reported by this process")
	}
	var bp bothCloseParams
	if vlib.ReplayCase("TestSessionBothClose", &bp) {
		if err := checkSession(r, bp.session()); err != nil {
			if strings.HasPrefix(err.Error(), "infra:") {
				t.Fatalf("%v", err)
			}
			r.Violation(t, "TestSessionBothClose", bp, err.Error())
		}
		return
	}
	r.Rule("bothclose: 2..4 connections open and carrying data; 1..3 windows per session in which the agent stops reading, the service of another connection writes 60000-byte blocks until the listener's sender is stuck, and then the service of one connection closes it while the agent's end-of-stream for that connection arrives (either one issued first), after which the agent reads again; before / after each window data in both directions on every other connection, optionally late data for the closed id and a newly announced connection; end by end-of-stream or disconnect; oracle = the session model (every other connection keeps relaying, nothing ends early, the session survives); all non-trivial (at least two connections carry data while open)")
	r.Rapid(t, "TestSessionBothClose", r.Pick(8, 60), func(rt *rapid.T) {
		if getInfra() != nil {
			return
		}
		p := bothCloseParams{
			Conns:   rapid.IntRange(2, 4).Draw(rt, "conns"),
			Before:  rapid.SliceOfN(rapid.OneOf(rapid.IntRange(1, 64), rapid.IntRange(1, 4000)), 1, 3).Draw(rt, "before"),
			After:   rapid.SliceOfN(rapid.OneOf(rapid.IntRange(1, 64), rapid.IntRange(1, 4000)), 1, 3).Draw(rt, "after"),
			PreSync: rapid.IntRange(0, 3).Draw(rt, "presync") > 0,
			Late:    rapid.Bool().Draw(rt, "late"),
			Reopen:  rapid.Bool().Draw(rt, "reopen"),
			Disc:    rapid.Bool().Draw(rt, "disc"),
			ReadBuf: rapid.SampledFrom([]int{700, 64, 4096, 65536}).Draw(rt, "readbuf"),
			Seg:     rapid.SampledFrom([]string{"frame3", "frame1", "chunks"}).Draw(rt, "seg"),
			Reuse:   rapid.Bool().Draw(rt, "reuse"),
		}
		p.Rounds = rapid.IntRange(1, p.Conns-1).Draw(rt, "rounds")
		p.CloseFirst = rapid.SliceOfN(rapid.Bool(), p.Rounds, p.Rounds).Draw(rt, "close_first")
		c := p.session()
		r.Case(fmt.Sprintf("bothclose/conns=%d/rounds=%d", p.Conns, p.Rounds), vlib.JSON(p), func() interface{} { return p })
		opLabels(r, c)
		if err := checkSession(r, c); err != nil {
			if strings.HasPrefix(err.Error(), "infra:") {
				setInfra(err)
				return
			}
			r.Fail(rt, "TestSessionBothClose", p, "%v", err)
		}
	})
	raceNotes(r)
	if err := getInfra(); err != nil {
		t.Fatalf("%v", err)
	}
}

// merges enumerates all interleavings of k scripts of the given lengths; visit gets the
// sequence of script indexes.
func merges(lens []int, visit func(order []int) bool) {
	total := 0
	for _, l := range lens {
		total += l
	}
	rem := append([]int(nil), lens...)
	order := make([]int, 0, total)
	var rec func() bool
	rec = func() bool {
		if len(order) == total {
			return visit(order)
		}
		for i := range rem {
			if rem[i] > 0 {
				rem[i]--
				order = append(order, i)
				ok := rec()
				order = order[:len(order)-1]
				rem[i]++
				if !ok {
					return false
				}
			}
		}
		return true
	}
	rec()
}

type mergeCase struct {
	Scripts [][]step `json:"scripts"`
	Order   []int    `json:"order"`
	Seg     string   `json:"seg"`
}

func (m mergeCase) session() sessCase {
	c := sessCase{Seg: m.Seg}
	for i := range m.Scripts {
		c.Conns = append(c.Conns, connSpec{V6: i == 1, LOct: i, ROct: i + 1, LPort: i, RPort: 40000 + i, ReadBuf: 700, SameAs: -1, Greeting: 3 * (i % 2), Reuse: i%2 == 1})
	}
	pos := make([]int, len(m.Scripts))
	for _, i := range m.Order {
		s := m.Scripts[i][pos[i]]
		s.C = i
		pos[i]++
		c.Steps = append(c.Steps, s)
	}
	return c
}

// TestSessionMerges: every interleaving of small per-connection scripts.
func TestSessionMerges(t *testing.T) {
	r := vlib.Open(prop)
	if sessionViolated.Load() && !vlib.Replaying() {
		t.Skip("a session violation was already reported by this process")
	}
	var mc mergeCase
	if vlib.ReplayCase("TestSessionMerges", &mc) {
		if err := checkSession(r, mc.session()); err != nil {
			if strings.HasPrefix(err.Error(), "infra:") {
				t.Fatalf("%v", err)
			}
			r.Violation(t, "TestSessionMerges", mc, err.Error())
		}
		return
	}
	if vlib.Replaying() {
		return
	}
	h, d := step{Op: "hello"}, func(n int) step { return step{Op: "data", N: n} }
	e, w := step{Op: "eof"}, step{Op: "swrite", N: 9}
	sets := [][][]step{
		{{h, d(5), d(700), e}, {h, d(3000), d(1), e}},  // 70 merges
		{{h, d(5), e}, {h, d(1200), e}, {h, d(64), e}}, // 1680 merges
		{{h, d(10), w, d(20)}, {h, w, d(4000), e}},     // 70 merges, second ends by eof, first by disconnect
	}
	if r.Thorough() {
		sets = append(sets,
			[][]step{{h, d(5), d(700), d(9), e}, {h, d(3000), w, d(1), e}},             // 252
			[][]step{{h, d(5), d(6), e}, {h, d(1200), e}, {h, d(64), d(1), e}, {h, e}}, // 4+3+4+2 = 13 steps: 13!/(4!3!4!2!) = 900900 -> sampled by shard stride below
		)
	}
	r.Rule("merges: ALL interleavings of per-connection scripts {2 x [hello,data,data,eof]; 3 x [hello,data,eof]; 2 x scripts with service writes}, each played as its own session; non-trivial = two connections each carry data while both are open; distinct by construction")
	si, sn := r.Shard()
	var n, nt int64
	idx := 0
	var bad *mergeCase
	var badMsg string
	for seti, scripts := range sets {
		lens := make([]int, len(scripts))
		for i, s := range scripts {
			lens[i] = len(s)
		}
		stride := 1
		if seti == 4 {
			stride = 300 // too many to play all: every 300th merge
		}
		k := 0
		merges(lens, func(order []int) bool {
			k++
			if k%stride != 0 {
				return true
			}
			idx++
			if idx%sn != si {
				return true
			}
			m := mergeCase{Scripts: scripts, Order: append([]int(nil), order...), Seg: []string{"frame3", "frame1"}[idx/sn%2]}
			c := m.session()
			n++
			if interleaved(c) {
				nt++
			}
			if err := checkSession(r, c); err != nil {
				if strings.HasPrefix(err.Error(), "infra:") {
					setInfra(err)
					return false
				}
				bad, badMsg = &m, err.Error()
				return false
			}
			return true
		})
		if bad != nil || getInfra() != nil {
			break
		}
	}
	r.Bulk("merges", n, nt)
	if err := getInfra(); err != nil {
		t.Fatalf("%v", err)
	}
	if bad != nil {
		r.Violation(t, "TestSessionMerges", *bad, badMsg)
		return
	}
	r.Sample("merges", mergeCase{Scripts: sets[0], Order: []int{0, 1, 0, 1, 0, 1, 0, 1}, Seg: "frame3"})
	r.Exhaustive("all interleavings of 2 x [hello,data,data,eof] (70), 3 x [hello,data,eof] (1680), 2 x scripts with service writes (70), split over the shards")
}
