package c13

// Reference side of the oracle: a TLS record / handshake / ClientHello reader and a JA3
// implementation written from RFC 5246 section 6.2.1 / 7.4.1.2, RFC 6066 section 3,
// RFC 4492 section 5.1, RFC 8701 and the JA3 README. Nothing here is imported from
// honeytrap; the input is the raw byte stream the harness put on the connection.

import (
	"crypto/md5"
	"encoding/hex"
	"fmt"
	"strconv"
	"strings"
)

// isGREASE: RFC 8701 reserves the sixteen values 0x0A0A, 0x1A1A, ... 0xFAFA (both bytes
// equal, low nibble 0xA) for cipher suites, extension types and named groups.
func isGREASE(v uint16) bool {
	hi, lo := byte(v>>8), byte(v)
	return hi == lo && lo&0x0f == 0x0a
}

type refHello struct {
	Version    uint16
	Ciphers    []uint16
	ExtTypes   []uint16
	Curves     []uint16
	Points     []uint8
	HasSNI     bool
	SNI        string
	NRecords   int
	HelloBytes int
}

// handshakeBytes concatenates the fragments of all handshake records of the stream.
func handshakeBytes(stream []byte) ([]byte, int, error) {
	var hs []byte
	n := 0
	for len(stream) > 0 {
		if len(stream) < 5 {
			return nil, 0, fmt.Errorf("truncated record header")
		}
		if stream[0] != 22 {
			return nil, 0, fmt.Errorf("record type %d is not handshake", stream[0])
		}
		l := int(stream[3])<<8 | int(stream[4])
		if len(stream) < 5+l {
			return nil, 0, fmt.Errorf("truncated record body")
		}
		if l == 0 || l > 16384 {
			return nil, 0, fmt.Errorf("record fragment length %d outside 1..2^14", l)
		}
		hs = append(hs, stream[5:5+l]...)
		stream = stream[5+l:]
		n++
	}
	return hs, n, nil
}

type rd struct {
	b   []byte
	err error
}

func (r *rd) take(n int) []byte {
	if r.err != nil {
		return nil
	}
	if n < 0 || len(r.b) < n {
		r.err = fmt.Errorf("short read: want %d have %d", n, len(r.b))
		return nil
	}
	out := r.b[:n]
	r.b = r.b[n:]
	return out
}
func (r *rd) u8() int {
	b := r.take(1)
	if b == nil {
		return 0
	}
	return int(b[0])
}
func (r *rd) u16() int {
	b := r.take(2)
	if b == nil {
		return 0
	}
	return int(b[0])<<8 | int(b[1])
}
func (r *rd) u24() int {
	b := r.take(3)
	if b == nil {
		return 0
	}
	return int(b[0])<<16 | int(b[1])<<8 | int(b[2])
}

// parseFirstHello reads the first handshake message of a client's byte stream, which must
// be a ClientHello. Handshake records following the hello (key exchange ...) are allowed
// when lenient is set (used for the real-client test where the stream continues).
func parseFirstHello(stream []byte, lenient bool) (*refHello, error) {
	var hs []byte
	nrec := 0
	if lenient {
		// take records until the first handshake message is complete
		s := stream
		for {
			if len(s) < 5 || s[0] != 22 {
				break
			}
			l := int(s[3])<<8 | int(s[4])
			if len(s) < 5+l {
				break
			}
			hs = append(hs, s[5:5+l]...)
			s = s[5+l:]
			nrec++
			if len(hs) >= 4 && len(hs) >= 4+(int(hs[1])<<16|int(hs[2])<<8|int(hs[3])) {
				break
			}
		}
	} else {
		var err error
		hs, nrec, err = handshakeBytes(stream)
		if err != nil {
			return nil, err
		}
	}
	r := &rd{b: hs}
	if t := r.u8(); r.err == nil && t != 1 {
		return nil, fmt.Errorf("handshake type %d is not client_hello", t)
	}
	hl := r.u24()
	body := r.take(hl)
	if r.err != nil {
		return nil, r.err
	}
	if !lenient && len(r.b) != 0 {
		return nil, fmt.Errorf("%d bytes after the hello", len(r.b))
	}
	h := &refHello{NRecords: nrec, HelloBytes: 4 + hl}
	r = &rd{b: body}
	h.Version = uint16(r.u16())
	r.take(32)
	r.take(r.u8())
	cs := &rd{b: r.take(r.u16())}
	for r.err == nil && len(cs.b) > 0 {
		h.Ciphers = append(h.Ciphers, uint16(cs.u16()))
		if cs.err != nil {
			return nil, fmt.Errorf("odd cipher suite vector")
		}
	}
	r.take(r.u8())
	if r.err != nil {
		return nil, r.err
	}
	if len(r.b) == 0 {
		return h, nil
	}
	ex := &rd{b: r.take(r.u16())}
	if r.err != nil {
		return nil, r.err
	}
	if len(r.b) != 0 {
		return nil, fmt.Errorf("bytes after the extensions block")
	}
	seen := map[uint16]int{}
	for len(ex.b) > 0 {
		typ := uint16(ex.u16())
		eb := ex.take(ex.u16())
		if ex.err != nil {
			return nil, ex.err
		}
		h.ExtTypes = append(h.ExtTypes, typ)
		seen[typ]++
		e := &rd{b: eb}
		switch typ {
		case 0: // server_name
			if seen[typ] > 1 {
				return nil, fmt.Errorf("duplicated server_name: the SNI sent is ambiguous")
			}
			list := &rd{b: e.take(e.u16())}
			for e.err == nil && len(list.b) > 0 {
				nt := list.u8()
				name := list.take(list.u16())
				if list.err != nil {
					return nil, list.err
				}
				if nt == 0 && !h.HasSNI {
					h.HasSNI = true
					h.SNI = string(name)
				}
			}
		case 10: // supported_groups (elliptic_curves)
			if seen[typ] > 1 {
				return nil, fmt.Errorf("duplicated supported_groups: JA3 is not defined")
			}
			list := &rd{b: e.take(e.u16())}
			for e.err == nil && len(list.b) > 0 {
				h.Curves = append(h.Curves, uint16(list.u16()))
				if list.err != nil {
					return nil, list.err
				}
			}
		case 11: // ec_point_formats
			if seen[typ] > 1 {
				return nil, fmt.Errorf("duplicated ec_point_formats: JA3 is not defined")
			}
			h.Points = append(h.Points, e.take(e.u8())...)
		}
		if e.err != nil {
			return nil, e.err
		}
	}
	return h, nil
}

func joinDec16(vs []uint16, dropGrease bool) string {
	var out []string
	for _, v := range vs {
		if dropGrease && isGREASE(v) {
			continue
		}
		out = append(out, strconv.FormatUint(uint64(v), 10))
	}
	return strings.Join(out, "-")
}

// JA3 string: SSLVersion,Ciphers,Extensions,EllipticCurves,EllipticCurvePointFormats
func (h *refHello) ja3String() string {
	var pts []string
	for _, p := range h.Points {
		pts = append(pts, strconv.Itoa(int(p)))
	}
	return strings.Join([]string{
		strconv.Itoa(int(h.Version)),
		joinDec16(h.Ciphers, true),
		joinDec16(h.ExtTypes, true),
		joinDec16(h.Curves, true),
		strings.Join(pts, "-"),
	}, ",")
}

func (h *refHello) ja3Digest() string {
	s := md5.Sum([]byte(h.ja3String()))
	return hex.EncodeToString(s[:])
}
