#!/usr/bin/env python3
import re,glob,json,os
res={}
for f in sorted(glob.glob('/tmp/seed_batch*.log'))+sorted(glob.glob('/tmp/seed_re*.log')):
    log=open(f,errors='replace').read()
    for sec in log.split('######## ')[1:]:
        name=sec.split('\n')[0].strip()
        m=re.search(r'=== (\S+): demo_base_pass=(\w+) own_tests_pass=(\w+) demo_with_change_fails=(\w+)',sec)
        if not m: continue
        valid=m.group(2)=='yes' and m.group(3)=='yes' and m.group(4)=='yes'
        caught=('  detail[' in sec) or ('\nVIOLATION' in sec)
        first=''
        for l in sec.split('\n'):
            if l.startswith('  detail['): first=l.strip()[:150]; break
        res[name]=(valid,caught,first)
for k in sorted(res):
    v=res[k]; print(k,'valid' if v[0] else 'INVALID','CAUGHT' if v[1] else 'missed',v[2])
    mp='/verif/seeded/%s/meta.json'%k
    if os.path.exists(mp):
        meta=json.load(open(mp)); meta['caught_by_quick']=[k.split('-')[0]] if v[1] else []; json.dump(meta,open(mp,'w'),indent=1)
