//go:build verif && linux
// +build verif,linux

// C02 - no frame on the wire can terminate the raw (canary) listener.
//
// Every verdict is taken from a child process that runs the listener's real Start()
// receive loop on a socketpair (verif hook): hostile frames are written to the peer
// socket, then a well-formed UDP probe to an undecoded port; the probe's event must
// arrive and the child must still be alive. InjectFrame (under recover, also in a
// child) is only the wide search that names crash candidates quickly; a candidate counts
// only after the real loop died on it (twice).
package c02

import (
	"encoding/hex"
	"fmt"
	"sort"
	"strings"
	"sync"
	"testing"
	"time"

	"pgregory.net/rapid"

	cl "verif/canarylab"
	"verif/vlib"
)

const prop = "C02"

func TestMain(m *testing.M) { cl.ChildIfRequested(); vlib.Main(m, prop) }

// ---------------------------------------------------------------------------------
// the replayable case: tables + optional SYN flood + hostile frames, then the probe

type frameCase struct {
	Tables string `json:"tables"` // arp | gateway | gateway-noarp | noroute | empty
	Flood  int    `json:"flood,omitempty"`
	// FloodKind: "distinct" (default) = every SYN from another address/port pair;
	// "same" = one SYN retransmitted (the listener allocates a state per SYN either way)
	FloodKind string   `json:"flood_kind,omitempty"`
	Frames    []string `json:"frames_hex"`
	Note      string   `json:"note,omitempty"`
	// ProbeTrailer: link-layer bytes behind the IP datagram of the final well-formed
	// probe. -1: a short probe padded to the Ethernet minimum of 60 bytes (what arrives
	// over a real Ethernet), k > 0: k trailer bytes, 0: the frame ends with the datagram.
	ProbeTrailer int `json:"probe_trailer,omitempty"`
	// Rest: before the probe is sent the harness waits until the receive loop has taken
	// every frame and all handler / decoder goroutines are parked (or the child is gone)
	Rest bool `json:"rest,omitempty"`
}

var (
	local    cl.Local
	localErr error
	once     sync.Once

	peer    = cl.Peer{IP: cl.IP4{10, 1, 2, 3}, MAC: cl.MAC{0x02, 0xaa, 0, 0, 0, 0x03}}
	prober  = cl.Peer{IP: cl.IP4{10, 9, 9, 9}, MAC: cl.MAC{0x02, 0xaa, 0, 0, 0, 0x09}}
	gateway = cl.Peer{IP: cl.IP4{192, 0, 2, 1}, MAC: cl.MAC{0x02, 0xaa, 0, 0, 0, 0x01}}
)

func env(t testing.TB) cl.Local {
	once.Do(func() { local, localErr = cl.FindLocal() })
	if localErr != nil {
		t.Fatalf("infra: %v", localErr)
	}
	return local
}

func tables(name string, l cl.Local) (cl.Config, error) {
	cfg := cl.Config{Interfaces: []string{l.Name}, Start: true}
	arp := func(p cl.Peer) cl.ARPEntry {
		return cl.ARPEntry{IP: p.IP.String(), MAC: p.MAC.String(), Interface: l.Name}
	}
	switch name {
	case "arp": // the peer is in the ARP cache; everybody else is reached through the gateway
		cfg.ARP = []cl.ARPEntry{arp(peer), arp(gateway)}
		cfg.Routes = []cl.Route{{Interface: l.Name, Gateway: gateway.IP.String(), Dest: "0.0.0.0/0"}}
	case "gateway": // no entry for the peer, default route through a gateway that has one
		cfg.ARP = []cl.ARPEntry{arp(gateway)}
		cfg.Routes = []cl.Route{{Interface: l.Name, Gateway: gateway.IP.String(), Dest: "0.0.0.0/0"}}
	case "gateway-noarp": // route exists, the gateway has no ARP entry
		cfg.Routes = []cl.Route{{Interface: l.Name, Gateway: gateway.IP.String(), Dest: "0.0.0.0/0"}}
	case "noroute": // an ARP cache and a route table that do not cover the peer
		cfg.ARP = []cl.ARPEntry{arp(gateway)}
		cfg.Routes = []cl.Route{{Interface: l.Name, Gateway: gateway.IP.String(), Dest: "172.16.0.0/12"}}
	case "empty":
	default:
		return cfg, fmt.Errorf("unknown tables %q", name)
	}
	return cfg, nil
}

var probeSeq uint32
var probeMu sync.Mutex

// probe returns a well-formed UDP datagram to an undecoded port and the predicate that
// recognises its event.
func probe(l cl.Local, trailer int) ([]byte, func([]cl.Ev) bool) {
	probeMu.Lock()
	probeSeq++
	n := probeSeq
	probeMu.Unlock()
	token := []byte(fmt.Sprintf("verif-probe-%08d", n))
	if trailer < 0 {
		token = []byte(fmt.Sprintf("vp%08d", n)) // a 52-byte frame, padded to 60
	}
	sport := uint16(20000 + n%40000)
	f := cl.Trailer(l.UDPFrame(prober, sport, 7777, token), trailer, byte(n))
	want := hex.EncodeToString(token)
	return f, func(evs []cl.Ev) bool {
		for _, e := range evs {
			if e.Str("category") == "udp" && e.Str("payload-hex") == want && e.Str("source-ip") == prober.IP.String() &&
				e.Str("destination-port") == "7777" && e.Str("source-port") == fmt.Sprint(sport) {
				return true
			}
		}
		return false
	}
}

func floodFrames(l cl.Local, n int, kind string) [][]byte {
	out := make([][]byte, 0, n)
	if kind == "same" {
		f := l.TCPFrame(peer, cl.TCPFields{Sport: 4555, Dport: 8081, Seq: 4242, DataOff: -1, Flags: cl.SYN})
		for i := 0; i < n; i++ {
			out = append(out, f)
		}
		return out
	}
	for i := 0; i < n; i++ {
		// distinct (address, port) pairs: 250 ports per address
		src := cl.Peer{IP: cl.IP4{10, 200, byte(i / 250 >> 8), byte(i / 250)}, MAC: gateway.MAC}
		out = append(out, l.TCPFrame(src, cl.TCPFields{Sport: uint16(1024 + i%250), Dport: uint16(1 + i%1000 + 1000), Seq: uint32(i) * 7919, DataOff: -1, Flags: cl.SYN}))
	}
	return out
}

// runCase feeds the case through the real Start() loop of a fresh child and applies the
// oracle. wait bounds how long the probe's event may take.
func runCase(l cl.Local, c frameCase, wait time.Duration) (err error, infra error) {
	cfg, cerr := tables(c.Tables, l)
	if cerr != nil {
		return nil, cerr
	}
	ch, cerr := cl.StartChild()
	if cerr != nil {
		return nil, cerr
	}
	defer ch.Kill()
	k, cerr := ch.New(cfg)
	if cerr != nil {
		return nil, fmt.Errorf("cannot create canary: %v", cerr)
	}
	var frames [][]byte
	if c.Flood > 0 {
		frames = append(frames, floodFrames(l, c.Flood, c.FloodKind)...)
	}
	for _, h := range c.Frames {
		b, herr := hex.DecodeString(h)
		if herr != nil {
			return nil, herr
		}
		frames = append(frames, b)
	}
	if c.Rest {
		if k.SendMany(frames) == nil {
			k.Rest() // a loop that never comes to rest, or a dead child: the probe decides
		}
		frames = nil
	}
	if c.ProbeTrailer != 0 {
		err := feedFramed(l, ch, k, frames, wait, c.ProbeTrailer)
		if err != nil {
			what := fmt.Sprintf("followed by %d link-layer trailer bytes", c.ProbeTrailer)
			if c.ProbeTrailer < 0 {
				what = "in a 52-byte frame padded to the 60-byte Ethernet minimum"
			}
			err = fmt.Errorf("%v [the probe is a well-formed UDP datagram %s]", err, what)
		}
		return err, nil
	}
	return feed(l, ch, k, frames, wait), nil
}

// feed sends frames then a probe through k's real loop and returns the oracle's verdict.
func feed(l cl.Local, ch *cl.Child, k *cl.Canary, frames [][]byte, wait time.Duration) error {
	return feedFramed(l, ch, k, frames, wait, 0)
}

// feedFramed is feed with the probe's link-layer framing given (see frameCase.ProbeTrailer).
func feedFramed(l cl.Local, ch *cl.Child, k *cl.Canary, frames [][]byte, wait time.Duration, probeTrailer int) error {
	t0 := time.Now()
	serr := k.SendMany(frames)
	pf, seen := probe(l, probeTrailer)
	if serr == nil {
		serr = k.Send(pf)
	}
	if serr == nil {
		serr = ch.Ping()
	}
	delivery := time.Since(t0).Round(100 * time.Millisecond)
	if k.Stalled() && !ch.Dead() {
		// the harness could not even deliver the frames: the receive loop took nothing from
		// its socket for 20 s while the history was written (and again for the probe). The
		// probe's event decides as always, but there is no backlog left to wait for.
		if wait > 10*time.Second {
			wait = 10 * time.Second
		}
		ok := k.WaitFor(wait, seen)
		if ch.Dead() || ch.WaitDead(50*time.Millisecond) {
			return fmt.Errorf("the listener process died while processing the frames (probe event seen=%v): %s", ok, ch.Death())
		}
		if !ok {
			return fmt.Errorf("the listener is alive but no longer processes frames: its receive loop stopped taking frames from the socket (nothing read for 20 s while the history was being delivered, the rest of it and the probe could not be delivered) and the event of a well-formed UDP probe sent after the frames did not arrive within a further %v (delivery attempts took %v)", wait, delivery)
		}
		return nil
	}
	ok := k.WaitFor(wait, seen)
	if !ok && !ch.Dead() {
		// re-measure before calling it a stop: twice the bound again
		ok = k.WaitFor(2*wait, seen)
	}
	if ch.Dead() || ch.WaitDead(50*time.Millisecond) {
		return fmt.Errorf("the listener process died while processing the frames (probe event seen=%v): %s", ok, ch.Death())
	}
	if !ok {
		return fmt.Errorf("the listener is alive but no longer processes frames: the event of a well-formed UDP probe sent after the frames did not arrive within %v", 3*wait)
	}
	return nil
}

// confirm runs the case twice in fresh children; only a failure that reproduces counts.
func confirm(r *vlib.Run, l cl.Local, c frameCase, wait time.Duration) (error, error) {
	e1, infra := runCase(l, c, wait)
	if infra != nil || e1 == nil {
		return e1, infra
	}
	e2, infra := runCase(l, c, wait)
	if infra != nil {
		return nil, infra
	}
	if e2 == nil {
		r.Flaky(fmt.Sprintf("C02 case failed once and passed on re-run: %v", e1))
		return nil, nil
	}
	return e2, nil
}

func replayed(t *testing.T, r *vlib.Run, name string) bool {
	var c frameCase
	if vlib.ReplayCase(name, &c) {
		l := env(t)
		wait := 20 * time.Second
		if c.Flood > 0 {
			wait = 240 * time.Second
		}
		err, infra := confirm(r, l, c, wait)
		if infra != nil {
			t.Fatalf("infra: %v", infra)
		}
		if err != nil {
			r.Violation(t, name, c, err.Error())
		}
		return true
	}
	return vlib.Replaying()
}

// ---------------------------------------------------------------------------------
// sweeping many frames: search pass (InjectFrame under recover) + real pass

type labelled struct {
	label string // class label for the histogram
	fp    string // field-class tuple ("" = trivial: does not reach an L3/L4 decision)
	frame []byte
}

type sweeper struct {
	t      *testing.T
	r      *vlib.Run
	l      cl.Local
	test   string
	tables string
	seen   map[string]bool // violation signatures already reported
	nviol  int
	rest   bool // cases wait for the handler goroutines before the probe (frameCase.Rest)
}

func signature(msg string) string {
	if i := strings.Index(msg, "panic:"); i >= 0 {
		s := msg[i:]
		loc := ""
		if j := strings.IndexAny(s, "|@"); j >= 0 {
			// keep the first code location, with its line number
			loc = strings.TrimSpace(s[j+1:])
			if k := strings.Index(loc, "|"); k >= 0 {
				loc = strings.TrimSpace(loc[:k])
			}
			s = s[:j]
		}
		// drop run-specific numbers from the message
		var b strings.Builder
		for _, c := range s {
			if c >= '0' && c <= '9' {
				continue
			}
			b.WriteRune(c)
		}
		return strings.TrimSpace(b.String()) + " @ " + loc
	}
	if strings.Contains(msg, "no longer processes") {
		return "stopped"
	}
	return msg
}

func (s *sweeper) report(c frameCase, err error) {
	sig := signature(err.Error())
	if s.seen[sig] {
		return
	}
	s.seen[sig] = true
	s.nviol++
	s.r.Violation(s.t, s.test, c, err.Error())
}

// sweep pushes all frames through the oracle. Frames are accounted by the caller.
func (s *sweeper) sweep(frames [][]byte) {
	const chunk = 4096
	for len(frames) > 0 && s.nviol < 6 {
		n := chunk
		if n > len(frames) {
			n = len(frames)
		}
		s.chunk(frames[:n])
		frames = frames[n:]
	}
}

func hexes(frames [][]byte) []string {
	out := make([]string, len(frames))
	for i, f := range frames {
		out[i] = hex.EncodeToString(f)
	}
	return out
}

func (s *sweeper) chunk(frames [][]byte) {
	// 1. search: every frame under recover through the hook's InjectFrame
	ch, err := cl.StartChild()
	if err != nil {
		s.t.Fatalf("infra: %v", err)
	}
	cfg, _ := tables(s.tables, s.l)
	scfg := cfg
	scfg.Start = false
	suspects := map[int]bool{}
	if k, err := ch.New(scfg); err != nil {
		ch.Kill()
		s.t.Fatalf("infra: %v", err)
	} else if panics, err := k.InjectBatch(frames); err != nil && !ch.Dead() {
		ch.Kill()
		s.t.Fatalf("infra: search pass: %v", err)
	} else {
		// a dead search child (fatal error outside recover) leaves the verdict to the real pass
		bySig := map[string]int{}
		for _, p := range panics {
			suspects[p.Index] = true
			sig := signature("panic:" + p.Msg + "@" + p.Where)
			if _, ok := bySig[sig]; !ok {
				bySig[sig] = p.Index
			}
		}
		sigs := make([]string, 0, len(bySig))
		for sg := range bySig {
			sigs = append(sigs, sg)
		}
		sort.Strings(sigs)
		for _, sg := range sigs {
			i := bySig[sg]
			c := frameCase{Tables: s.tables, Frames: []string{hex.EncodeToString(frames[i])}}
			verr, infra := confirm(s.r, s.l, c, 20*time.Second)
			if infra != nil {
				ch.Kill()
				s.t.Fatalf("infra: %v", infra)
			}
			if verr != nil {
				s.report(c, verr)
			} else {
				s.r.Note("InjectFrame panicked (%s) but the real loop survived the same single frame - not counted", sg)
			}
		}
	}
	ch.Kill()
	// 2. real pass over the frames the search did not flag
	var rest [][]byte
	for i, f := range frames {
		if !suspects[i] {
			rest = append(rest, f)
		}
	}
	s.real(rest)
}

// real feeds frames through the real loop; when the listener fails it bisects to a
// minimal failing history suffix / single frame.
func (s *sweeper) real(frames [][]byte) {
	if len(frames) == 0 || s.nviol >= 6 {
		return
	}
	c := frameCase{Tables: s.tables, Frames: hexes(frames), Rest: s.rest}
	err, infra := runCase(s.l, c, 30*time.Second)
	if infra != nil {
		s.t.Fatalf("infra: %v", infra)
	}
	if err == nil {
		return
	}
	if len(frames) == 1 {
		verr, infra := confirm(s.r, s.l, c, 30*time.Second)
		if infra != nil {
			s.t.Fatalf("infra: %v", infra)
		}
		if verr != nil {
			s.report(c, verr)
		}
		return
	}
	// does either half fail on its own? otherwise the failure needs the whole history
	h := len(frames) / 2
	a := frameCase{Tables: s.tables, Frames: hexes(frames[:h]), Rest: s.rest}
	b := frameCase{Tables: s.tables, Frames: hexes(frames[h:]), Rest: s.rest}
	ea, infra := runCase(s.l, a, 30*time.Second)
	if infra != nil {
		s.t.Fatalf("infra: %v", infra)
	}
	eb, infra := runCase(s.l, b, 30*time.Second)
	if infra != nil {
		s.t.Fatalf("infra: %v", infra)
	}
	switch {
	case ea != nil:
		s.real(frames[:h])
		if eb != nil {
			s.real(frames[h:])
		}
	case eb != nil:
		s.real(frames[h:])
	default:
		verr, infra := confirm(s.r, s.l, c, 30*time.Second)
		if infra != nil {
			s.t.Fatalf("infra: %v", infra)
		}
		if verr != nil {
			if len(c.Frames) > 400 {
				c.Note = "failure needs the history; not reducible by halving"
			}
			s.report(c, verr)
		}
	}
}

func account(r *vlib.Run, items []labelled) [][]byte {
	frames := make([][]byte, len(items))
	for i, it := range items {
		it := it
		frames[i] = it.frame
		r.Case(it.label, it.fp, func() interface{} {
			return map[string]string{"class": it.fp, "frame_hex": hex.EncodeToString(it.frame)}
		})
	}
	return frames
}

func shardOf(r *vlib.Run, items []labelled) []labelled {
	i, n := r.Shard()
	var out []labelled
	for j, it := range items {
		if j%n == i {
			out = append(out, it)
		}
	}
	return out
}

// ---------------------------------------------------------------------------------
// field-boundary enumeration

func pad(n int, seed byte) []byte {
	b := make([]byte, n)
	for i := range b {
		b[i] = seed + byte(i*7)
	}
	return b
}

func ipFrame(l cl.Local, h cl.IPv4Fields, payload []byte) []byte {
	h.Src, h.Dst = peer.IP, l.IP
	return cl.Eth(l.MAC, peer.MAC, cl.EtherIPv4, cl.IPv4(h, payload))
}

func boundaryFrames(l cl.Local) []labelled {
	var out []labelled
	add := func(label, fp string, f []byte) {
		if len(f) < 14 { // the kernel never delivers less than a link-layer header
			f = append(f, make([]byte, 14-len(f))...)
		}
		if len(f) > 1600 {
			f = f[:1600]
		}
		out = append(out, labelled{label, fp, f})
	}
	// A. link layer: ethertypes x payload sizes (IPv4 ethertype with < 20 bytes = L3 boundary)
	for _, et := range []uint16{cl.EtherIPv4, cl.EtherARP, cl.EtherIPv6, 0, 0xffff, 0x8100, 0x0801} {
		for _, n := range []int{0, 1, 19, 20, 27, 28, 29, 100, 1586} {
			fp := ""
			if et == cl.EtherIPv4 {
				fp = fmt.Sprintf("l2 ipv4 short payload=%d", n)
			}
			add(fmt.Sprintf("l2/ethertype=%#04x", et), fp, cl.Eth(l.MAC, peer.MAC, et, pad(n, 0x45)))
		}
	}
	// ARP frames (every reachable configuration ignores them)
	for _, op := range []uint16{1, 2, 0, 0xffff} {
		a := cl.ARP(op, peer.MAC, peer.IP, cl.MAC{}, l.IP)
		add("arp/wellformed", fmt.Sprintf("arp op=%d", op), cl.Eth(cl.MAC{0xff, 0xff, 0xff, 0xff, 0xff, 0xff}, peer.MAC, cl.EtherARP, a))
		for _, cut := range []int{0, 1, 7, 8, 14, 18, 24, 27} {
			add("arp/truncated", fmt.Sprintf("arp op=%d cut=%d", op, cut), cl.Eth(l.MAC, peer.MAC, cl.EtherARP, a[:cut]))
		}
		for _, hs := range []byte{0, 1, 5, 7, 255} {
			for _, ps := range []byte{0, 3, 5, 255} {
				b := append([]byte(nil), a...)
				b[4], b[5] = hs, ps
				add("arp/sizes", fmt.Sprintf("arp op=%d hlen=%d plen=%d", op, hs, ps), cl.Eth(l.MAC, peer.MAC, cl.EtherARP, b))
			}
		}
	}
	// B. IPv4 header: IHL x total length x protocol x bytes after the 20-byte header
	for ihl := 0; ihl <= 15; ihl++ {
		for _, after := range []int{0, 1, 7, 8, 19, 20, 21, 40, 60} {
			actual := 20 + after
			hdr := ihl * 4
			tls := map[int]bool{0: true, 19: true, 20: true, 21: true, hdr - 1: true, hdr: true, hdr + 1: true,
				actual - 1: true, actual: true, actual + 1: true, 65535: true}
			var tl []int
			for v := range tls {
				if v >= 0 {
					tl = append(tl, v)
				}
			}
			sort.Ints(tl)
			for _, total := range tl {
				for _, proto := range []byte{cl.ProtoICMP, cl.ProtoIGMP, cl.ProtoTCP, cl.ProtoUDP, 47, 255} {
					var l4 []byte
					switch proto {
					case cl.ProtoTCP:
						l4 = cl.TCP(peer.IP, l.IP, cl.TCPFields{Sport: 4000, Dport: 8080, Seq: 1, DataOff: -1, Flags: cl.ACK, Payload: pad(40, 1)})
					case cl.ProtoUDP:
						l4 = cl.UDP(peer.IP, l.IP, 4000, 7000, after, pad(60, 2))
					default:
						l4 = cl.ICMPEcho(1, 1, pad(60, 3))
					}
					f := ipFrame(l, cl.IPv4Fields{IHL: ihl, TotalLen: total, Proto: proto}, l4[:after])
					add(fmt.Sprintf("ipv4/ihl=%d", ihl), fmt.Sprintf("ipv4 ihl=%d total=%d(actual %d) proto=%d", ihl, total, actual, proto), f)
				}
			}
		}
	}
	// IPv4: version, fragments, options present and consistent
	for _, ver := range []int{0, 5, 6, 15} {
		v := ver
		if v == 0 {
			v = 1 // IPv4Fields treats 0 as "4"
		}
		add("ipv4/version", fmt.Sprintf("ipv4 version=%d", v), ipFrame(l, cl.IPv4Fields{Version: v, IHL: -1, TotalLen: -1, Proto: cl.ProtoUDP}, cl.UDP(peer.IP, l.IP, 1, 7000, -1, pad(4, 1))))
	}
	for _, fo := range []uint16{0x2000, 0x2001, 0x1fff, 0x4000, 0x8000, 0xffff} {
		for _, proto := range []byte{cl.ProtoTCP, cl.ProtoUDP, cl.ProtoICMP} {
			add("ipv4/fragment", fmt.Sprintf("ipv4 flags+off=%#04x proto=%d", fo, proto), ipFrame(l, cl.IPv4Fields{IHL: -1, TotalLen: -1, Proto: proto, FlagsOff: fo}, pad(24, 9)))
		}
	}
	for _, on := range []int{4, 8, 40} {
		for _, proto := range []byte{cl.ProtoTCP, cl.ProtoUDP, cl.ProtoICMP} {
			for _, after := range []int{0, 8, 20, 40} {
				add("ipv4/options", fmt.Sprintf("ipv4 options=%d proto=%d l4=%d", on, proto, after),
					ipFrame(l, cl.IPv4Fields{IHL: -1, TotalLen: -1, Proto: proto, Options: pad(on, 0x07)}, pad(after, 0x50)))
			}
		}
	}
	// C. TCP: segment length x data offset x flags x checksum
	flagSets := []byte{cl.SYN, cl.ACK, cl.SYN | cl.ACK, cl.FIN | cl.ACK, cl.RST, cl.PSH | cl.ACK, 0, 0x3f, cl.FIN, cl.SYN | cl.FIN, cl.RST | cl.ACK}
	for _, seglen := range []int{0, 1, 4, 12, 13, 14, 16, 18, 19, 20, 21, 24, 40, 59, 60, 61, 100} {
		for do := 0; do <= 15; do++ {
			for fi, fl := range flagSets {
				for _, bad := range []bool{false, true} {
					full := cl.TCP(peer.IP, l.IP, cl.TCPFields{Sport: uint16(5000 + fi), Dport: 8080, Seq: 77, Ack: 1, DataOff: do, Flags: fl, Options: nil, Payload: pad(100, 0x01), BadSum: bad})
					seg := append([]byte(nil), full[:seglen]...)
					if !bad && seglen >= 18 {
						// make the checksum right for the truncated segment
						seg[16], seg[17] = 0, 0
						cs := cl.Sum1071(pseudoHdr(peer.IP, l.IP, len(seg)), seg)
						seg[16], seg[17] = byte(cs>>8), byte(cs)
					}
					f := ipFrame(l, cl.IPv4Fields{IHL: -1, TotalLen: -1, Proto: cl.ProtoTCP}, seg)
					add(fmt.Sprintf("tcp/len=%d", seglen), fmt.Sprintf("tcp len=%d dataoff=%d flags=%#02x badsum=%v", seglen, do, fl, bad), f)
				}
			}
		}
	}
	// TCP option layouts, structural classes: option areas of 4, 8, 12 and 40 bytes
	kinds := []byte{0, 1, 2, 3, 4, 5, 8, 30, 254, 255}
	for _, area := range []int{4, 8, 12, 40} {
		for pos := 0; pos < area; pos++ {
			for _, kind := range kinds {
				rem := area - pos
				lens := map[int]bool{0: true, 1: true, 2: true, 3: true, 4: true, rem - 1: true, rem: true, rem + 1: true, 255: true}
				var ls []int
				for v := range lens {
					if v >= 0 && v <= 255 {
						ls = append(ls, v)
					}
				}
				sort.Ints(ls)
				for _, ln := range ls {
					for _, fill := range []byte{1, 0} {
						if (area > 12 && fill == 0) || (area > 12 && pos%3 == 1 && pos < area-3) {
							continue
						}
						opts := make([]byte, area)
						for i := range opts {
							opts[i] = fill
						}
						for i := 0; i < pos; i++ {
							opts[i] = 1 // NOPs lead to the option under test
						}
						opts[pos] = kind
						if pos+1 < area {
							opts[pos+1] = byte(ln)
						} else if ln != 0 {
							continue // no room for a length byte: one variant is enough
						}
						for _, fl := range []byte{cl.ACK, cl.SYN} {
							seg := cl.TCP(peer.IP, l.IP, cl.TCPFields{Sport: uint16(6000 + pos), Dport: 8080, Seq: 5, DataOff: (20 + area) / 4, Flags: fl, Options: opts, Payload: pad(3, 1)})
							add(fmt.Sprintf("tcpopt/area=%d", area), fmt.Sprintf("tcpopt area=%d pos=%d kind=%d len=%d fill=%d flags=%#02x", area, pos, kind, ln, fill, fl),
								ipFrame(l, cl.IPv4Fields{IHL: -1, TotalLen: -1, Proto: cl.ProtoTCP}, seg))
						}
					}
				}
			}
		}
	}
	// D. UDP: length field vs. actual, decoded and undecoded ports
	for _, actual := range []int{0, 1, 7, 8, 9, 20, 100, 1472} {
		ls := map[int]bool{0: true, 7: true, 8: true, actual - 1: true, actual: true, actual + 1: true, 65535: true}
		var lens []int
		for v := range ls {
			if v >= 0 {
				lens = append(lens, v)
			}
		}
		sort.Ints(lens)
		for _, ln := range lens {
			for _, dport := range []uint16{53, 123, 161, 162, 1900, 5060, 7000, 0, 65535} {
				d := cl.UDP(peer.IP, l.IP, 4000, dport, ln, pad(1472, byte(dport)))
				add(fmt.Sprintf("udp/dport=%d", dport), fmt.Sprintf("udp actual=%d lenfield=%d dport=%d", actual, ln, dport),
					ipFrame(l, cl.IPv4Fields{IHL: -1, TotalLen: -1, Proto: cl.ProtoUDP}, d[:actual]))
			}
		}
	}
	// UDP payload shapes for the decoded ports (their goroutines recover, the loop must not care)
	shapes := [][]byte{{}, {0}, pad(1, 0xff), pad(11, 0), pad(12, 0), pad(12, 0xff), pad(13, 0x81), pad(47, 0x1b), pad(48, 0x1b), pad(49, 0xe3),
		[]byte("M-SEARCH * HTTP/1.1\r\nHOST: 239.255.255.250:1900\r\n\r\n"), []byte("M-SEARCH * HTTP/1.1\r\n"), []byte("INVITE sip:a@b SIP/2.0\r\nVia: x\r\n\r\n"),
		{0x30, 0x02, 0x02, 0x00}, {0x30, 0x82, 0xff, 0xff}, {0x30, 0x26, 0x02, 0x01, 0x01, 0x04, 0x06, 'p', 'u', 'b', 'l', 'i', 'c', 0xa0, 0x19}, pad(300, 0x30)}
	for _, dport := range []uint16{53, 123, 161, 162, 1900, 5060} {
		for si, sh := range shapes {
			add(fmt.Sprintf("udp/decoded=%d", dport), fmt.Sprintf("udp decoded dport=%d shape=%d", dport, si), l.UDPFrame(peer, 4001, dport, sh))
		}
	}
	// E. ICMP: sizes around the 8-byte header, types
	for n := 0; n <= 9; n++ {
		for _, typ := range []byte{0, 3, 8, 11, 13, 255} {
			b := cl.ICMPEcho(7, 9, pad(16, 1))
			b[0] = typ
			add("icmp/short", fmt.Sprintf("icmp len=%d type=%d", n, typ), ipFrame(l, cl.IPv4Fields{IHL: -1, TotalLen: -1, Proto: cl.ProtoICMP}, b[:n]))
		}
	}
	for _, n := range []int{64, 1472} {
		add("icmp/echo", fmt.Sprintf("icmp echo len=%d", n), l.ICMPFrame(peer, 1, 2, pad(n, 3)))
	}
	out = append(out, trailerFrames(l)...)
	return out
}

// trailerLens: link-layer trailer lengths behind the IP datagram (-1: padded to the
// 60-byte Ethernet minimum).
var trailerLens = []int{-1, 1, 2, 4, 6, 7, 18, 46, 300, 1400}

// trailerFrames: F. link-layer framing - well-formed TCP / UDP / ICMP datagrams of
// lengths around the padding boundary in frames that are longer than the datagram
// (padded to the Ethernet minimum, arbitrary trailers).
func trailerFrames(l cl.Local) []labelled {
	var out []labelled
	type inner struct {
		what  string
		frame []byte
	}
	var in []inner
	for i, fl := range []byte{cl.SYN, cl.ACK, cl.PSH | cl.ACK, cl.FIN | cl.ACK, cl.RST} {
		for _, n := range []int{0, 1, 5, 6, 7, 100} {
			if n > 0 && fl&cl.ACK == 0 {
				continue
			}
			in = append(in, inner{fmt.Sprintf("tcp flags=%#02x payload=%d", fl, n),
				l.TCPFrame(peer, cl.TCPFields{Sport: uint16(7000 + i), Dport: 8080, Seq: 9, Ack: 1, DataOff: -1, Flags: fl, Payload: pad(n, 0x61)})})
		}
	}
	in = append(in, inner{"tcp syn+mss", l.TCPFrame(peer, cl.TCPFields{Sport: 7010, Dport: 8080, Seq: 9, DataOff: -1, Flags: cl.SYN, Options: []byte{2, 4, 5, 0xb4}})})
	for _, dport := range []uint16{7000, 53, 123, 161, 1900, 5060} {
		for _, n := range []int{0, 1, 17, 18, 19, 100} {
			in = append(in, inner{fmt.Sprintf("udp dport=%d payload=%d", dport, n), l.UDPFrame(peer, 4002, dport, pad(n, 0x30))})
		}
	}
	for _, n := range []int{0, 1, 17, 18, 19, 64} {
		in = append(in, inner{fmt.Sprintf("icmp echo payload=%d", n), l.ICMPFrame(peer, 3, 4, pad(n, 5))})
	}
	for _, it := range in {
		for _, tr := range trailerLens {
			f := cl.Trailer(it.frame, tr, 0xd0)
			if len(f) == len(it.frame) || len(f) > 1600 {
				continue
			}
			out = append(out, labelled{"trailer/" + strings.Fields(it.what)[0], fmt.Sprintf("trailer=%d %s", tr, it.what), f})
		}
	}
	return out
}

// TestFramedProbes: the well-formed probe that must still yield its event arrives the
// way frames arrive over a real Ethernet - padded to the 60-byte minimum - or with
// other link-layer trailers, after nothing at all and after a history of frames with
// trailers.
func TestFramedProbes(t *testing.T) {
	r := vlib.Open(prop)
	if replayed(t, r, "TestFramedProbes") {
		return
	}
	l := env(t)
	r.Rule(ruleText)
	var history [][]byte
	for _, it := range trailerFrames(l) {
		history = append(history, it.frame)
	}
	si, sn := r.Shard()
	seen := map[string]bool{}
	idx := 0
	for _, tr := range trailerLens {
		for _, hist := range [][][]byte{nil, history} {
			idx++
			if idx%sn != si || len(seen) > 0 { // a failing case costs minutes: one report per shard
				continue
			}
			c := frameCase{Tables: "arp", Frames: hexes(hist), ProbeTrailer: tr}
			r.Case(fmt.Sprintf("framed-probe/trailer=%d", tr), fmt.Sprintf("framed probe trailer=%d history=%d", tr, len(hist)), func() interface{} {
				return map[string]interface{}{"probe_trailer": tr, "history_frames": len(hist)}
			})
			err, infra := confirm(r, l, c, 20*time.Second)
			if infra != nil {
				t.Fatalf("infra: %v", infra)
			}
			if err != nil {
				if sig := signature(err.Error()); !seen[sig] && len(seen) < 3 {
					seen[sig] = true
					r.Violation(t, "TestFramedProbes", c, err.Error())
				}
			}
		}
	}
}

func pseudoHdr(src, dst cl.IP4, n int) []byte {
	p := make([]byte, 12)
	copy(p[0:4], src[:])
	copy(p[4:8], dst[:])
	p[9] = cl.ProtoTCP
	p[10], p[11] = byte(n>>8), byte(n)
	return p
}

const ruleText = "frames of 14..1600 bytes through the real Start() loop in a child (socketpair hook), then a well-formed UDP probe whose event must arrive with the child alive. " +
	"Frame classes: ethertypes x payload sizes; ARP well-formed/truncated/size fields; IPv4 IHL 0..15 x total length {0,19,20,21,hdr+-1,actual+-1,65535} x protocol {1,2,6,17,47,255} x bytes after the header; version, fragment and option variants; " +
	"TCP segment length 0..100 x data offset 0..15 x 11 flag sets x good/bad checksum; TCP option areas (structural classes for 4/8/12/40-byte areas; every 1- and 2-byte layout, every 3-byte layout in the thorough tier); UDP length field vs actual x decoded/undecoded ports and payload shapes; ICMP 0..9 bytes x types; link-layer framing: well-formed TCP / UDP / ICMP datagrams around the padding boundary in frames padded to the 60-byte Ethernet minimum or followed by trailers of 1/2/4/6/7/18/46/300/1400 bytes, and the final probe itself padded to 60 bytes or followed by such a trailer (after no history and after the trailer frames); rapid-drawn random and mutated frames; " +
	"SYN floods up to 70,000 half-open connections; ARP/route tables with and without an entry for the peer. non-trivial = the frame passes ethernet and IPv4 parsing far enough to name an L3/L4 header field class (distinct by field-class tuple); histories distinct by (tables, history kind)"

func TestFrames(t *testing.T) {
	r := vlib.Open(prop)
	if replayed(t, r, "TestFrames") {
		return
	}
	l := env(t)
	r.Rule(ruleText)
	items := shardOf(r, boundaryFrames(l))
	s := &sweeper{t: t, r: r, l: l, test: "TestFrames", tables: "arp", seen: map[string]bool{}}
	s.sweep(account(r, items))
}

// TestOptionAreas enumerates option areas completely: the 4-byte option area of a
// data-offset-6 segment holds every 1-, 2- (and in the thorough tier 3-) byte layout,
// once at the end of the area behind NOPs (the last option can then end exactly at or
// run over the header boundary) and once at its start followed by end-of-list bytes.
func TestOptionAreas(t *testing.T) {
	r := vlib.Open(prop)
	if replayed(t, r, "TestOptionAreas") {
		return
	}
	l := env(t)
	r.Rule(ruleText)
	si, sn := r.Shard()
	s := &sweeper{t: t, r: r, l: l, test: "TestOptionAreas", tables: "arp", seen: map[string]bool{}}
	base := cl.TCP(peer.IP, l.IP, cl.TCPFields{Sport: 7000, Dport: 8080, Seq: 9, Ack: 1, DataOff: 6, Flags: cl.ACK, Options: []byte{1, 1, 1, 1}, Payload: []byte{0xaa}})
	mk := func(opts [4]byte) []byte {
		seg := append([]byte(nil), base...)
		copy(seg[20:24], opts[:])
		seg[16], seg[17] = 0, 0
		cs := cl.Sum1071(pseudoHdr(peer.IP, l.IP, len(seg)), seg)
		seg[16], seg[17] = byte(cs>>8), byte(cs)
		return ipFrame(l, cl.IPv4Fields{IHL: -1, TotalLen: -1, Proto: cl.ProtoTCP}, seg)
	}
	widths := []int{1, 2}
	if r.Thorough() {
		widths = append(widths, 3)
	}
	for _, w := range widths {
		total := 1 << (8 * uint(w))
		for _, tailPos := range []bool{true, false} {
			var batch [][]byte
			var n int64
			flush := func() {
				if len(batch) > 0 {
					s.sweep(batch)
					batch = batch[:0]
				}
			}
			for v := si; v < total; v += sn {
				var o [4]byte
				if tailPos {
					o = [4]byte{1, 1, 1, 1}
					for i := 0; i < w; i++ {
						o[4-w+i] = byte(v >> (8 * uint(w-1-i)))
					}
				} else {
					for i := 0; i < w; i++ {
						o[i] = byte(v >> (8 * uint(w-1-i)))
					}
				}
				batch = append(batch, mk(o))
				n++
				if len(batch) >= 65536 {
					flush()
				}
				if s.nviol >= 6 {
					break
				}
			}
			flush()
			where := "head"
			if tailPos {
				where = "tail"
			}
			r.Bulk(fmt.Sprintf("tcpopt-exhaustive/%d-byte/%s", w, where), n, n)
		}
		if s.nviol == 0 {
			r.Exhaustive(fmt.Sprintf("all %d-byte TCP option layouts (at the head and at the tail of a 4-byte option area)", w))
		}
	}
}

// TestRandomFrames: rapid-drawn batches of random, half-valid and mutated frames.
func TestRandomFrames(t *testing.T) {
	r := vlib.Open(prop)
	if replayed(t, r, "TestRandomFrames") {
		return
	}
	l := env(t)
	r.Rule(ruleText)
	var ch *cl.Child
	var made int
	defer func() {
		if ch != nil {
			ch.Kill()
		}
	}()
	seeds := boundaryFrames(l)
	box := &cl.Infra{}
	r.Rapid(t, "TestRandomFrames", r.Pick(120, 1500), func(rt *rapid.T) {
		if box.Err() != nil {
			rapid.Bool().Draw(rt, "skipped-after-infra-error")
			return
		}
		n := rapid.IntRange(1, 48).Draw(rt, "frames")
		var frames [][]byte
		var kinds []string
		for i := 0; i < n; i++ {
			var f []byte
			kind := rapid.SampledFrom([]string{"random", "ip-random", "l4-random", "mutated", "mutated"}).Draw(rt, "kind")
			switch kind {
			case "random":
				f = rapid.SliceOfN(rapid.Byte(), 14, 1600).Draw(rt, "bytes")
			case "ip-random":
				f = cl.Eth(l.MAC, peer.MAC, cl.EtherIPv4, rapid.SliceOfN(rapid.Byte(), 0, 200).Draw(rt, "ip"))
			case "l4-random":
				proto := rapid.SampledFrom([]byte{1, 6, 17}).Draw(rt, "proto")
				src := peer.IP
				if rapid.Bool().Draw(rt, "other-src") {
					src = cl.IP4{byte(rapid.IntRange(1, 223).Draw(rt, "a")), rapid.Byte().Draw(rt, "b"), rapid.Byte().Draw(rt, "c"), rapid.Byte().Draw(rt, "d")}
				}
				body := rapid.SliceOfN(rapid.Byte(), 0, 120).Draw(rt, "l4")
				f = cl.Eth(l.MAC, peer.MAC, cl.EtherIPv4, cl.IPv4(cl.IPv4Fields{IHL: -1, TotalLen: -1, Proto: proto, Src: src, Dst: l.IP}, body))
			case "mutated":
				f = append([]byte(nil), seeds[rapid.IntRange(0, len(seeds)-1).Draw(rt, "seed")].frame...)
				for m := rapid.IntRange(1, 4).Draw(rt, "muts"); m > 0 && len(f) > 14; m-- {
					switch rapid.IntRange(0, 2).Draw(rt, "mut") {
					case 0:
						f[rapid.IntRange(12, len(f)-1).Draw(rt, "at")] = rapid.SampledFrom([]byte{0, 1, 0x0f, 0x40, 0x45, 0x4f, 0x50, 0x7f, 0x80, 0xf0, 0xff}).Draw(rt, "val")
					case 1:
						f = f[:rapid.IntRange(14, len(f)).Draw(rt, "cut")]
					case 2:
						f = append(f, rapid.SliceOfN(rapid.Byte(), 1, 40).Draw(rt, "grow")...)
					}
				}
			}
			if len(f) > 1600 {
				f = f[:1600]
			}
			frames = append(frames, f)
			kinds = append(kinds, kind)
		}
		if ch == nil || ch.Dead() || made >= 150 {
			if ch != nil {
				ch.Kill()
			}
			var err error
			if ch, err = cl.StartChild(); err != nil {
				box.Set(err)
				return
			}
			made = 0
		}
		cfg, _ := tables("arp", l)
		k, err := ch.New(cfg)
		if err != nil {
			box.Set(err)
			return
		}
		made++
		sort.Strings(kinds)
		for i, f := range frames {
			fp := ""
			if len(f) >= 34 && f[12] == 0x08 && f[13] == 0x00 {
				fp = hex.EncodeToString(f)
			}
			f := f
			r.Case("random/"+kinds[i], fp, func() interface{} { return map[string]string{"frame_hex": hex.EncodeToString(f)} })
		}
		if verr := feed(l, ch, k, frames, 20*time.Second); verr != nil {
			c := frameCase{Tables: "arp", Frames: hexes(frames)}
			cerr, infra := confirm(r, l, c, 20*time.Second)
			if infra != nil {
				box.Set(infra)
				return
			}
			if cerr != nil {
				r.Fail(rt, "TestRandomFrames", c, "%v", cerr)
			}
		}
	})
	if e := box.Err(); e != nil {
		t.Fatalf("infra: %v", e)
	}
}

// TestTables: connection attempts and whole connections from a peer for which the ARP
// cache / route table do or do not have an entry.
func TestTables(t *testing.T) {
	r := vlib.Open(prop)
	if replayed(t, r, "TestTables") {
		return
	}
	if i, _ := r.Shard(); i != 0 {
		return
	}
	l := env(t)
	r.Rule(ruleText)
	syn := l.TCPFrame(peer, cl.TCPFields{Sport: 4100, Dport: 8080, Seq: 1000, DataOff: -1, Flags: cl.SYN})
	histories := map[string][][]byte{
		"syn":          {syn},
		"syn-x3":       {syn, syn, syn},
		"syn+ack+data": {syn, l.TCPFrame(peer, cl.TCPFields{Sport: 4100, Dport: 8080, Seq: 1001, Ack: 1, DataOff: -1, Flags: cl.ACK}), l.TCPFrame(peer, cl.TCPFields{Sport: 4100, Dport: 8080, Seq: 1001, Ack: 1, DataOff: -1, Flags: cl.ACK | cl.PSH, Payload: []byte("hello")})},
		"syn+rst":      {syn, l.TCPFrame(peer, cl.TCPFields{Sport: 4100, Dport: 8080, Seq: 1001, DataOff: -1, Flags: cl.RST})},
		"syn+fin":      {syn, l.TCPFrame(peer, cl.TCPFields{Sport: 4100, Dport: 8080, Seq: 1001, Ack: 1, DataOff: -1, Flags: cl.FIN | cl.ACK})},
		"udp+icmp":     {l.UDPFrame(peer, 1, 7000, []byte("x")), l.ICMPFrame(peer, 1, 1, []byte("abcdefgh"))},
		"syn-decoded":  {l.TCPFrame(peer, cl.TCPFields{Sport: 4101, Dport: 80, Seq: 5, DataOff: -1, Flags: cl.SYN})},
	}
	names := make([]string, 0, len(histories))
	for n := range histories {
		names = append(names, n)
	}
	sort.Strings(names)
	seen := map[string]bool{}
	for _, tb := range []string{"arp", "gateway", "gateway-noarp", "noroute", "empty"} {
		for _, hn := range names {
			c := frameCase{Tables: tb, Frames: hexes(histories[hn]), Note: hn}
			r.Case("tables/"+tb, tb+"/"+hn, func() interface{} { return c })
			err, infra := confirm(r, l, c, 20*time.Second)
			if infra != nil {
				t.Fatalf("infra: %v", infra)
			}
			if err != nil {
				if sig := signature(err.Error()); !seen[sig] {
					seen[sig] = true
					r.Violation(t, "TestTables", c, err.Error())
				}
			}
		}
	}
}

// TestSynFlood: histories of half-open connections up to beyond the 65,535-slot state
// table.
func TestSynFlood(t *testing.T) {
	r := vlib.Open(prop)
	if replayed(t, r, "TestSynFlood") {
		return
	}
	l := env(t)
	r.Rule(ruleText)
	si, sn := r.Shard()
	type fl struct {
		n    int
		kind string
	}
	// "same" = one SYN retransmitted n times (a state per SYN, cheap lookups: the table
	// fills within the 30 s after which the listener starts recycling slots);
	// "distinct" = n address/port pairs (slower: the table is full after ~50 s here)
	// quick tier: the full flood in its cheap form, the distinct-pairs form up to what fits the budget
	floods := []fl{{70000, "same"}, {25000, "distinct"}, {5000, "distinct"}, {100, "same"}}
	if r.Thorough() {
		floods = []fl{{70000, "same"}, {70000, "distinct"}, {65536, "same"}, {65535, "same"}, {65534, "same"}, {20000, "distinct"}, {5000, "distinct"}, {5000, "same"}, {100, "distinct"}, {1, "same"}}
	}
	for i, f := range floods {
		if (i+1)%sn != si { // shard 0 runs TestTables
			continue
		}
		n := f.n
		c := frameCase{Tables: "arp", Flood: n, FloodKind: f.kind, Note: "SYN flood"}
		r.Case(fmt.Sprintf("flood/%s/%d", f.kind, n), fmt.Sprintf("flood %s %d", f.kind, n), func() interface{} { return c })
		t0 := time.Now()
		err, infra := runCase(l, c, 240*time.Second)
		if infra != nil {
			t.Fatalf("infra: %v", infra)
		}
		r.Note("flood of %d SYNs (%s) + probe took %.1fs", n, f.kind, time.Since(t0).Seconds())
		if err != nil {
			// reduce towards the smallest flood size that still fails (bisection between the
			// largest passing size and this one) for as long as the budget allows - a failing
			// run costs up to a minute -, then confirm
			budget := time.Duration(r.Pick(0, 900)) * time.Second
			tb := time.Now()
			lo, hi := 0, n
			for hi-lo > 1 && hi > 1 && time.Since(tb) < budget {
				mid := (lo + hi) / 2
				e, infra := runCase(l, frameCase{Tables: "arp", Flood: mid, FloodKind: f.kind}, 240*time.Second)
				if infra != nil {
					t.Fatalf("infra: %v", infra)
				}
				if e != nil {
					hi = mid
				} else {
					lo = mid
				}
			}
			c.Flood = hi
			cerr, infra := runCase(l, c, 240*time.Second)
			if infra != nil {
				t.Fatalf("infra: %v", infra)
			}
			if cerr != nil {
				r.Violation(t, "TestSynFlood", c, cerr.Error())
				return
			}
			r.Flaky(fmt.Sprintf("C02 flood failed (%v) and passed on re-run with %d", err, hi))
		}
	}
}
