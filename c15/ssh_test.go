package c15

import (
	"bytes"
	"crypto/rand"
	"encoding/binary"
	"errors"
	"fmt"
	"io"
	"net"
	"sync"
	"sync/atomic"
	"testing"
	"time"

	"golang.org/x/crypto/ed25519"
	"golang.org/x/crypto/ssh"
	"pgregory.net/rapid"

	"verif/lab"
	"verif/vlib"
)

// ---- backend fixture ----

type cred struct{ user, pass string }

type seenReq struct {
	typ       string
	wantReply bool
	payload   []byte
}

type sshChanSeen struct {
	mu     sync.Mutex
	reqs   []seenReq
	data   []byte
	extra  int
	phase  string // "", "data", "done"
	closed bool
}

type sshChanScript struct {
	replies    []bool
	bdata      []byte
	bcuts      []int
	clen       int
	clientEOF  bool
	exitStatus int
	timing     sshTiming
	startAcked chan struct{}
}

// sshTiming is the backend's schedule on one channel: pauses (milliseconds) between its
// actions. A remote command produces its output in bursts, may end its output long
// before it exits (it closed stdout and kept working) and the server closes the channel
// when it gets round to it - none of which changes what the client has to receive.
type sshTiming struct {
	// EOFFirst: the backend ends its output (EOF), then reports the exit status, then
	// closes; otherwise exit status, EOF, close.
	EOFFirst bool `json:"eof_first,omitempty"`
	PieceMs  int  `json:"piece_ms,omitempty"` // before each data piece after the first
	EndMs    int  `json:"end_ms,omitempty"`   // between the last data and the first closing action
	ExitMs   int  `json:"exit_ms,omitempty"`  // between the first and the second closing action (EOF / exit status)
	CloseMs  int  `json:"close_ms,omitempty"` // before the close
}

func (tm sshTiming) total(pieces int) time.Duration {
	return time.Duration(tm.PieceMs*pieces+tm.EndMs+tm.ExitMs+tm.CloseMs) * time.Millisecond
}

func pause(ms int) {
	if ms > 0 {
		time.Sleep(time.Duration(ms) * time.Millisecond)
	}
}

type sshScript struct {
	accept   *string
	chans    []*sshChanScript
	nextChan int32

	mu       sync.Mutex
	attempts []cred
	seen     []*sshChanSeen
	surplus  int // channels opened beyond the script
}

type sshBackend struct {
	l      *net.TCPListener
	port   int
	signer ssh.Signer

	mu      sync.Mutex
	scripts map[string]*sshScript
	stray   []string
	remotes []string
	open    map[net.Conn]bool
}

func newSSHBackend(addr string) (*sshBackend, error) {
	_, priv, err := ed25519.GenerateKey(rand.Reader)
	if err != nil {
		return nil, err
	}
	signer, err := ssh.NewSignerFromKey(priv)
	if err != nil {
		return nil, err
	}
	l, p, err := listenTCP(addr)
	if err != nil {
		return nil, err
	}
	b := &sshBackend{l: l, port: p, signer: signer}
	b.reset()
	go func() {
		for {
			c, err := l.Accept()
			if err != nil {
				return
			}
			b.mu.Lock()
			b.remotes = append(b.remotes, c.RemoteAddr().String())
			b.open[c] = true
			b.mu.Unlock()
			go b.handle(c)
		}
	}()
	return b, nil
}

func (b *sshBackend) reset() {
	b.mu.Lock()
	old := b.open
	b.scripts = map[string]*sshScript{}
	b.stray = nil
	b.remotes = nil
	b.open = map[net.Conn]bool{}
	b.mu.Unlock()
	for c := range old {
		c.Close()
	}
}

func (b *sshBackend) install(user string, s *sshScript) {
	b.mu.Lock()
	b.scripts[user] = s
	b.mu.Unlock()
}

func (b *sshBackend) script(user string) *sshScript {
	b.mu.Lock()
	defer b.mu.Unlock()
	return b.scripts[user]
}

func (b *sshBackend) handle(c net.Conn) {
	defer func() {
		c.Close()
		b.mu.Lock()
		delete(b.open, c)
		b.mu.Unlock()
	}()
	cfg := &ssh.ServerConfig{
		PasswordCallback: func(cm ssh.ConnMetadata, pw []byte) (*ssh.Permissions, error) {
			sc := b.script(cm.User())
			if sc == nil {
				b.mu.Lock()
				b.stray = append(b.stray, fmt.Sprintf("login attempt for user %q password %q that no client made", cm.User(), pw))
				b.mu.Unlock()
				return nil, errors.New("denied")
			}
			sc.mu.Lock()
			sc.attempts = append(sc.attempts, cred{cm.User(), string(pw)})
			sc.mu.Unlock()
			if sc.accept != nil && *sc.accept == string(pw) {
				return &ssh.Permissions{}, nil
			}
			return nil, errors.New("denied")
		},
	}
	cfg.AddHostKey(b.signer)
	c.SetDeadline(time.Now().Add(60 * time.Second))
	sconn, chans, reqs, err := ssh.NewServerConn(c, cfg)
	if err != nil {
		return
	}
	c.SetDeadline(time.Time{})
	defer sconn.Close()
	go ssh.DiscardRequests(reqs)
	sc := b.script(sconn.User())
	for nc := range chans {
		if sc == nil || nc.ChannelType() != "session" {
			nc.Reject(ssh.UnknownChannelType, "no")
			continue
		}
		idx := int(atomic.AddInt32(&sc.nextChan, 1)) - 1
		if idx >= len(sc.chans) {
			sc.mu.Lock()
			sc.surplus++
			sc.mu.Unlock()
			nc.Reject(ssh.Prohibited, "no")
			continue
		}
		ch, creqs, err := nc.Accept()
		if err != nil {
			continue
		}
		seen := &sshChanSeen{}
		sc.mu.Lock()
		for len(sc.seen) <= idx {
			sc.seen = append(sc.seen, nil)
		}
		sc.seen[idx] = seen
		sc.mu.Unlock()
		go b.handleChan(ch, creqs, sc.chans[idx], seen)
	}
}

func (b *sshBackend) handleChan(ch ssh.Channel, reqs <-chan *ssh.Request, cs *sshChanScript, seen *sshChanSeen) {
	started := false
	for req := range reqs {
		seen.mu.Lock()
		j := len(seen.reqs)
		seen.reqs = append(seen.reqs, seenReq{req.Type, req.WantReply, append([]byte(nil), req.Payload...)})
		seen.mu.Unlock()
		ok := j < len(cs.replies) && cs.replies[j]
		if req.WantReply {
			req.Reply(ok, nil)
		}
		if j == len(cs.replies)-1 && ok && !started {
			started = true
			go dataPhase(ch, cs, seen)
		}
	}
	seen.mu.Lock()
	seen.closed = true
	seen.mu.Unlock()
}

func dataPhase(ch ssh.Channel, cs *sshChanScript, seen *sshChanSeen) {
	seen.mu.Lock()
	seen.phase = "data"
	seen.mu.Unlock()
	writeB := func() {
		for i, part := range split(cs.bdata, cs.bcuts) {
			if len(part) == 0 {
				continue
			}
			if i > 0 {
				pause(cs.timing.PieceMs)
			}
			if _, err := ch.Write(part); err != nil {
				return
			}
		}
	}
	buf := make([]byte, cs.clen)
	extra := make(chan int, 1)
	if cs.clientEOF {
		// a filter command: consume the input up to its end, then answer
		n, _ := io.ReadFull(ch, buf)
		x, _ := io.Copy(io.Discard, ch)
		seen.mu.Lock()
		seen.data = buf[:n]
		seen.mu.Unlock()
		extra <- int(x)
		writeB()
	} else {
		var wg sync.WaitGroup
		wg.Add(1)
		go func() {
			defer wg.Done()
			writeB()
		}()
		n, _ := io.ReadFull(ch, buf)
		seen.mu.Lock()
		seen.data = buf[:n]
		seen.mu.Unlock()
		wg.Wait()
		select {
		case <-cs.startAcked:
		case <-time.After(waitBound):
		}
		go func() {
			n, _ := io.Copy(io.Discard, ch)
			extra <- int(n)
		}()
	}
	sendExit := func() {
		if cs.exitStatus >= 0 {
			var p [4]byte
			binary.BigEndian.PutUint32(p[:], uint32(cs.exitStatus))
			ch.SendRequest("exit-status", false, p[:])
		}
	}
	pause(cs.timing.EndMs)
	if cs.timing.EOFFirst {
		ch.CloseWrite()
		pause(cs.timing.ExitMs)
		sendExit()
	} else {
		sendExit()
		pause(cs.timing.ExitMs)
		ch.CloseWrite()
	}
	pause(cs.timing.CloseMs)
	ch.Close()
	select {
	case x := <-extra:
		seen.mu.Lock()
		seen.extra = x
		seen.mu.Unlock()
	case <-time.After(waitBound):
	}
	seen.mu.Lock()
	seen.phase = "done"
	seen.mu.Unlock()
}

// ---- case ----

type sshReq struct {
	Type      string `json:"type"`
	WantReply bool   `json:"want_reply"`
	Payload   string `json:"payload_hex"`
	Accept    bool   `json:"accept"` // the backend's answer
}

type sshChan struct {
	Reqs  []sshReq `json:"reqs"` // the last one is exec or shell with want_reply
	CData bodySpec `json:"cdata"`
	CCuts []int    `json:"ccuts,omitempty"`
	BData bodySpec `json:"bdata"`
	BCuts []int    `json:"bcuts,omitempty"`
	// ClientEOF: the client ends its input (EOF) after its data and the backend
	// answers only then, like a filter command; otherwise both sides write at once
	ClientEOF  bool `json:"client_eof"`
	ExitStatus int  `json:"exit_status"` // sent by the backend before it closes; -1 none
	// Timing: the backend's schedule (pauses between its data pieces, the end of its
	// output, its exit status and its close; which of the last two comes first)
	Timing sshTiming `json:"timing"`
}

// scripted is how long the backend pauses on this channel by the case's own script.
func (chs sshChan) scripted() time.Duration {
	return chs.Timing.total(len(split(make([]byte, chs.BData.Len), chs.BCuts)))
}

type sshConn struct {
	User      string    `json:"user"`
	Passwords []string  `json:"passwords"`
	Accept    int       `json:"accept"` // index of the password the backend accepts, -1 none
	Chans     []sshChan `json:"chans"`
}

type sshCase struct {
	Conns []sshConn `json:"conns"`
}

func sshUser(epoch, ci int, u string) string { return fmt.Sprintf("e%04dc%d-%s", epoch%10000, ci, u) }

// expectedAttempts: the client tries its passwords in order until one is accepted.
func (sc sshConn) expectedAttempts() (n int, ok bool) {
	if sc.Accept >= 0 && sc.Accept < len(sc.Passwords) {
		acc := sc.Passwords[sc.Accept]
		for i, p := range sc.Passwords {
			if p == acc {
				return i + 1, true
			}
		}
	}
	return len(sc.Passwords), false
}

type sshChanResult struct {
	replies []bool
	got     []byte
	started bool
	mu      sync.Mutex
	inreqs  []seenReq // requests the backend originated (exit-status)
	inDone  chan struct{}
}

type sshResult struct {
	local    net.Addr
	attempts int
	authOK   bool
	authErr  error
	chans    []*sshChanResult
	err      error
}

func (e *labEnv) runSSHConn(ci int, sc sshConn, user string, script *sshScript) *sshResult {
	res := &sshResult{}
	addr := e.addr(e.sshPort)
	c, err := dialTCPFrom(ci, addr)
	if err != nil {
		res.err = fmt.Errorf("infra: dial proxy %s: %v", addr, err)
		return res
	}
	defer c.Close()
	res.local = c.LocalAddr()
	var timedOut int32
	var scripted time.Duration
	for _, chs := range sc.Chans {
		scripted += chs.scripted()
	}
	watchdog := time.AfterFunc(4*waitBound+scripted, func() {
		atomic.StoreInt32(&timedOut, 1)
		c.Close()
	})
	defer watchdog.Stop()
	fail := func(format string, a ...interface{}) *sshResult {
		msg := fmt.Sprintf(format, a...)
		if atomic.LoadInt32(&timedOut) == 1 {
			res.err = &timeoutErr{msg + " (gave up after " + (4*waitBound + scripted).String() + ")"}
		} else {
			res.err = errors.New(msg)
		}
		return res
	}
	i := 0
	cfg := &ssh.ClientConfig{
		User:            user,
		HostKeyCallback: ssh.InsecureIgnoreHostKey(),
		Auth: []ssh.AuthMethod{ssh.RetryableAuthMethod(ssh.PasswordCallback(func() (string, error) {
			if i >= len(sc.Passwords) {
				return "", errors.New("no more passwords")
			}
			p := sc.Passwords[i]
			i++
			return p, nil
		}), len(sc.Passwords))},
	}
	cc, chans, reqs, err := ssh.NewClientConn(c, addr, cfg)
	res.attempts = i
	res.authOK = err == nil
	res.authErr = err
	wantN, wantOK := sc.expectedAttempts()
	if err != nil {
		if wantOK {
			return fail("login with the password the backend accepts (attempt %d of %v) failed at the proxy: %v", wantN, sc.Passwords, err)
		}
		return res
	}
	defer cc.Close()
	go ssh.DiscardRequests(reqs)
	go func() {
		for nc := range chans {
			nc.Reject(ssh.Prohibited, "no")
		}
	}()
	if !wantOK {
		return res
	}
	for k, chs := range sc.Chans {
		ch, inreqs, err := cc.OpenChannel("session", nil)
		if err != nil {
			return fail("channel %d: session channel could not be opened through the proxy: %v", k, err)
		}
		cr := &sshChanResult{inDone: make(chan struct{})}
		res.chans = append(res.chans, cr)
		go func() {
			for r := range inreqs {
				cr.mu.Lock()
				cr.inreqs = append(cr.inreqs, seenReq{r.Type, r.WantReply, append([]byte(nil), r.Payload...)})
				cr.mu.Unlock()
				if r.WantReply {
					r.Reply(false, nil)
				}
			}
			close(cr.inDone)
		}()
		for j, rq := range chs.Reqs {
			ok, err := ch.SendRequest(rq.Type, rq.WantReply, vlib.UnHex(rq.Payload))
			if err != nil {
				return fail("channel %d request %d (%s): no reply reached the client: %v", k, j, rq.Type, err)
			}
			cr.replies = append(cr.replies, ok)
		}
		last := len(chs.Reqs) - 1
		if !chs.Reqs[last].Accept || !cr.replies[last] {
			ch.Close()
			continue
		}
		cr.started = true
		close(script.chans[k].startAcked)
		werr := make(chan error, 1)
		go func() {
			for _, part := range split(chs.CData.bytes(), chs.CCuts) {
				if len(part) == 0 {
					continue
				}
				if _, err := ch.Write(part); err != nil {
					werr <- err
					return
				}
			}
			if chs.ClientEOF {
				ch.CloseWrite()
			}
			werr <- nil
		}()
		got, rerr := io.ReadAll(ch)
		cr.got = got
		if rerr != nil {
			return fail("channel %d: reading the backend's data failed after %d bytes: %v", k, len(got), rerr)
		}
		if err := <-werr; err != nil && len(got) == chs.BData.Len {
			// the channel was closed under the writer although the backend waits for all client data
			return fail("channel %d: client could not write its data: %v", k, err)
		}
		// the backend closes the channel after its data (and exit status)
		select {
		case <-cr.inDone:
		case <-time.After(waitBound + chs.scripted()):
			return fail("channel %d: the backend closed its channel after its data but the client's channel was not closed within %s", k, waitBound+chs.scripted())
		}
		ch.Close()
	}
	return res
}

func checkSSH(t testing.TB, c sshCase) error {
	err := guard(func() error { return checkSSHOnce(t, c) })
	if _, ok := err.(*timeoutErr); ok {
		if err2 := guard(func() error { return checkSSHOnce(t, c) }); err2 == nil {
			vlib.Open(prop).Flaky("ssh: " + err.Error())
			return nil
		} else {
			return err2
		}
	}
	return err
}

func checkSSHOnce(t testing.TB, c sshCase) error {
	e := getEnv(t)
	epoch := nextEpoch()
	d0 := e.decoy.count()
	e.sshB.reset()
	defer e.sshB.reset()
	mark := e.cap.Len()
	scripts := make([]*sshScript, len(c.Conns))
	users := make([]string, len(c.Conns))
	for ci, sc := range c.Conns {
		s := &sshScript{}
		if sc.Accept >= 0 && sc.Accept < len(sc.Passwords) {
			p := sc.Passwords[sc.Accept]
			s.accept = &p
		}
		for _, chs := range sc.Chans {
			cs := &sshChanScript{bdata: chs.BData.bytes(), bcuts: chs.BCuts, clen: chs.CData.Len, clientEOF: chs.ClientEOF, exitStatus: chs.ExitStatus, timing: chs.Timing, startAcked: make(chan struct{})}
			for _, rq := range chs.Reqs {
				cs.replies = append(cs.replies, rq.Accept)
			}
			s.chans = append(s.chans, cs)
		}
		scripts[ci] = s
		users[ci] = sshUser(epoch, ci, sc.User)
		e.sshB.install(users[ci], s)
	}
	results := make([]*sshResult, len(c.Conns))
	var wg sync.WaitGroup
	for ci := range c.Conns {
		wg.Add(1)
		go func(ci int) {
			defer wg.Done()
			results[ci] = e.runSSHConn(ci, c.Conns[ci], users[ci], scripts[ci])
		}(ci)
	}
	wg.Wait()
	for _, r := range results {
		if isInfra(r.err) {
			return r.err
		}
	}
	if e.decoy.count() != d0 {
		return fmt.Errorf("the decoy address was contacted: %s", e.decoy.last())
	}
	e.sshB.mu.Lock()
	stray := append([]string(nil), e.sshB.stray...)
	remotes := append([]string(nil), e.sshB.remotes...)
	e.sshB.mu.Unlock()
	if len(stray) > 0 {
		return fmt.Errorf("backend: %s", stray[0])
	}
	if err := fromProxyHost(remotes); err != nil {
		return err
	}
	var pending error
	for ci, sc := range c.Conns {
		r := results[ci]
		s := scripts[ci]
		wantN, wantOK := sc.expectedAttempts()
		// credentials
		s.mu.Lock()
		attempts := append([]cred(nil), s.attempts...)
		seen := append([]*sshChanSeen(nil), s.seen...)
		surplus := s.surplus
		s.mu.Unlock()
		var want []cred
		for i := 0; i < r.attempts && i < len(sc.Passwords); i++ {
			want = append(want, cred{users[ci], sc.Passwords[i]})
		}
		if fmt.Sprint(attempts) != fmt.Sprint(want) || len(attempts) != len(want) {
			return fmt.Errorf("conn %d: backend saw the login attempts %q, the client made %q (client's login result: %v)", ci, attempts, want, r.authErr)
		}
		if r.authOK != wantOK || r.attempts != wantN {
			if r.err != nil {
				if _, isT := r.err.(*timeoutErr); isT {
					pending = r.err
					continue
				}
			}
			return fmt.Errorf("conn %d: client login outcome ok=%v after %d attempts; the backend's decisions give ok=%v after %d attempts (passwords %q, accepted index %d)", ci, r.authOK, r.attempts, wantOK, wantN, sc.Passwords, sc.Accept)
		}
		if surplus > 0 {
			return fmt.Errorf("conn %d: backend was asked for %d channels more than the client opened", ci, surplus)
		}
		// channels
		for k, chs := range sc.Chans {
			if !wantOK || k >= len(r.chans) {
				break
			}
			cr := r.chans[k]
			where := fmt.Sprintf("conn %d channel %d", ci, k)
			if k >= len(seen) || seen[k] == nil {
				return fmt.Errorf("%s: the backend never saw the channel", where)
			}
			sn := seen[k]
			// requests as the backend saw them: wait until the ones sent have arrived
			deadline := time.Now().Add(waitBound)
			for {
				sn.mu.Lock()
				n := len(sn.reqs)
				sn.mu.Unlock()
				if n >= len(cr.replies) || time.Now().After(deadline) {
					break
				}
				time.Sleep(time.Millisecond)
			}
			sn.mu.Lock()
			sreqs := append([]seenReq(nil), sn.reqs...)
			sdata := append([]byte(nil), sn.data...)
			extra := sn.extra
			sn.mu.Unlock()
			for j := 0; j < len(cr.replies); j++ {
				rq := chs.Reqs[j]
				if j >= len(sreqs) {
					return &timeoutErr{fmt.Sprintf("%s request %d (%s): never reached the backend", where, j, rq.Type)}
				}
				g := sreqs[j]
				if g.typ != rq.Type || g.wantReply != rq.WantReply || !bytes.Equal(g.payload, vlib.UnHex(rq.Payload)) {
					return fmt.Errorf("%s request %d: backend saw type=%q want_reply=%v payload=%s; client sent type=%q want_reply=%v payload=%s", where, j, g.typ, g.wantReply, short(g.payload), rq.Type, rq.WantReply, short(vlib.UnHex(rq.Payload)))
				}
				if rq.WantReply && cr.replies[j] != rq.Accept {
					return fmt.Errorf("%s request %d (%s): backend answered %v, client was told %v", where, j, rq.Type, rq.Accept, cr.replies[j])
				}
			}
			if len(sreqs) > len(cr.replies) && r.err == nil {
				return fmt.Errorf("%s: backend saw %d requests, client sent %d (extra: %q)", where, len(sreqs), len(cr.replies), sreqs[len(cr.replies)].typ)
			}
			if cr.started && r.err == nil {
				// wait for the backend's data phase to finish
				deadline := time.Now().Add(waitBound)
				for {
					sn.mu.Lock()
					ph := sn.phase
					sdata = append([]byte(nil), sn.data...)
					extra = sn.extra
					sn.mu.Unlock()
					if ph == "done" || time.Now().After(deadline) {
						break
					}
					time.Sleep(time.Millisecond)
				}
				if want := chs.CData.bytes(); !bytes.Equal(sdata, want) {
					return fmt.Errorf("%s: channel data changed on the way to the backend: %s", where, firstDiff(sdata, want))
				}
				if extra != 0 {
					return fmt.Errorf("%s: backend received %d bytes more than the client sent", where, extra)
				}
				if want := chs.BData.bytes(); !bytes.Equal(cr.got, want) {
					return fmt.Errorf("%s: channel data changed on the way to the client (client_eof=%v): %s", where, chs.ClientEOF, firstDiff(cr.got, want))
				}
				cr.mu.Lock()
				in := append([]seenReq(nil), cr.inreqs...)
				cr.mu.Unlock()
				var wantIn []seenReq
				if chs.ExitStatus >= 0 {
					var p [4]byte
					binary.BigEndian.PutUint32(p[:], uint32(chs.ExitStatus))
					wantIn = append(wantIn, seenReq{"exit-status", false, p[:]})
				}
				if fmt.Sprint(in) != fmt.Sprint(wantIn) {
					return fmt.Errorf("%s: before closing the backend sent the requests %v, the client received %v (backend schedule: %+v)", where, wantIn, in, chs.Timing)
				}
			}
		}
		if r.err != nil {
			if _, isT := r.err.(*timeoutErr); isT {
				pending = r.err
				continue
			}
			return fmt.Errorf("conn %d: %v", ci, r.err)
		}
		// events: every login attempt and every relayed channel request, attributed to the client
		var wantEv []string
		for i := 0; i < r.attempts; i++ {
			wantEv = append(wantEv, "password-authentication:"+users[ci]+":"+sc.Passwords[i])
		}
		for k, cr := range r.chans {
			for j := range cr.replies {
				wantEv = append(wantEv, "ssh-request:"+sc.Chans[k].Reqs[j].Type)
			}
		}
		ok := e.cap.WaitFor(waitBound, func(evs []lab.Ev) bool {
			return covered(wantEv, sshEventKeys(clientEvents(evs, mark, r.local)))
		})
		if !ok {
			return &timeoutErr{fmt.Sprintf("conn %d (%s): relayed %v but the events attributed to that address are %v", ci, r.local, wantEv, sshEventKeys(clientEvents(e.cap.Events(), mark, r.local)))}
		}
	}
	if pending != nil {
		return pending
	}
	if e.decoy.count() != d0 {
		return fmt.Errorf("the decoy address was contacted: %s", e.decoy.last())
	}
	return nil
}

func sshEventKeys(evs []lab.Ev) []string {
	var out []string
	for _, e := range evs {
		switch e.Str("type") {
		case "password-authentication":
			out = append(out, "password-authentication:"+e.Str("ssh.username")+":"+e.Str("ssh.password"))
		case "ssh-request":
			out = append(out, "ssh-request:"+e.Str("ssh.request-type"))
		}
	}
	return out
}

// ---- generator ----

func sshString(s []byte) []byte {
	out := make([]byte, 4+len(s))
	binary.BigEndian.PutUint32(out, uint32(len(s)))
	copy(out[4:], s)
	return out
}

func genBytes(t *rapid.T, label string, max int) []byte {
	return rapid.SliceOfN(rapid.Byte(), 0, max).Draw(t, label)
}

func genSSHReq(t *rapid.T, start bool) sshReq {
	var rq sshReq
	if start {
		rq.Type = rapid.SampledFrom([]string{"exec", "exec", "shell"}).Draw(t, "start-type")
		rq.WantReply = true
		rq.Accept = rapid.IntRange(0, 5).Draw(t, "start-accept") != 0
	} else {
		rq.Type = rapid.SampledFrom([]string{"env", "env", "pty-req"}).Draw(t, "req-type")
		rq.WantReply = rapid.Bool().Draw(t, "want-reply")
		rq.Accept = rapid.Bool().Draw(t, "accept")
	}
	var p []byte
	if rapid.IntRange(0, 7).Draw(t, "raw-payload") == 0 {
		p = genBytes(t, "payload", 40)
	} else {
		switch rq.Type {
		case "exec":
			p = sshString(genBytes(t, "command", 200))
		case "env":
			p = append(sshString(genBytes(t, "env-name", 20)), sshString(genBytes(t, "env-value", 60))...)
		case "pty-req":
			p = sshString([]byte(rapid.SampledFrom([]string{"xterm", "vt100", "", "xterm-256color"}).Draw(t, "term")))
			for i := 0; i < 4; i++ {
				var n [4]byte
				binary.BigEndian.PutUint32(n[:], uint32(rapid.IntRange(0, 1000).Draw(t, "dim")))
				p = append(p, n[:]...)
			}
			p = append(p, sshString(genBytes(t, "modes", 30))...)
		}
	}
	rq.Payload = vlib.Hex(p)
	return rq
}

func genSSHConn(t *rapid.T) sshConn {
	sc := sshConn{User: rapid.StringMatching(`[a-zA-Z0-9_.@ -]{0,12}`).Draw(t, "user")}
	pool := []string{"", "root", "123456", "pass word", "p\x00q", "päss", rapid.StringN(0, 20, 40).Draw(t, "pw")}
	n := rapid.IntRange(1, 4).Draw(t, "npw")
	for i := 0; i < n; i++ {
		sc.Passwords = append(sc.Passwords, rapid.SampledFrom(pool).Draw(t, "password"))
	}
	sc.Accept = rapid.IntRange(-1, n-1).Draw(t, "accepted")
	if rapid.IntRange(0, 2).Draw(t, "accept-last") == 0 {
		sc.Accept = n - 1
	}
	if _, ok := sc.expectedAttempts(); ok {
		nch := rapid.IntRange(1, 2).Draw(t, "nchan")
		for k := 0; k < nch; k++ {
			var chs sshChan
			nr := rapid.IntRange(0, 3).Draw(t, "nreq")
			for j := 0; j < nr; j++ {
				chs.Reqs = append(chs.Reqs, genSSHReq(t, false))
			}
			chs.Reqs = append(chs.Reqs, genSSHReq(t, true))
			chs.CData = genBody(t, "cdata")
			chs.BData = genBody(t, "bdata")
			chs.CCuts = genCuts(t, "ccut", chs.CData.Len)
			chs.BCuts = genCuts(t, "bcut", chs.BData.Len)
			chs.ClientEOF = rapid.Bool().Draw(t, "client-eof")
			chs.ExitStatus = rapid.SampledFrom([]int{-1, 0, 0, 1, 127, 255}).Draw(t, "exit-status")
			if rapid.IntRange(0, 2).Draw(t, "timed") == 0 {
				chs.Timing = genSSHTiming(t, shortPauses)
			}
			sc.Chans = append(sc.Chans, chs)
		}
	}
	return sc
}

var shortPauses = []int{0, 0, 0, 1, 10, 50}

// genSSHTiming draws a backend schedule whose pauses come from pool.
func genSSHTiming(t *rapid.T, pool []int) sshTiming {
	return sshTiming{
		EOFFirst: rapid.Bool().Draw(t, "eof-first"),
		PieceMs:  rapid.SampledFrom(shortPauses).Draw(t, "piece-ms"),
		EndMs:    rapid.SampledFrom(pool).Draw(t, "end-ms"),
		ExitMs:   rapid.SampledFrom(pool).Draw(t, "exit-ms"),
		CloseMs:  rapid.SampledFrom(pool).Draw(t, "close-ms"),
	}
}

// genSSHTimingCase: connections whose login is accepted and whose channels start; on one
// channel of every connection the backend takes its time (0.5 .. 3 s) at one drawn point
// of its schedule - between its data pieces, before it ends its output, between the end
// of its output and its exit status (either order), before it closes. The connections of
// a case run side by side, so a case costs its longest pause.
func genSSHTimingCase(t *rapid.T) sshCase {
	n := rapid.SampledFrom([]int{1, 2, 3, 3, 3}).Draw(t, "nconn")
	var c sshCase
	for i := 0; i < n; i++ {
		sc := genSSHConn(t)
		if _, ok := sc.expectedAttempts(); !ok {
			sc.Passwords = sc.Passwords[:1]
			sc.Accept = 0
			var chs sshChan
			chs.Reqs = []sshReq{genSSHReq(t, true)}
			chs.BData = genBody(t, "bdata")
			chs.BCuts = genCuts(t, "bcut", chs.BData.Len)
			chs.ExitStatus = rapid.SampledFrom([]int{0, 1, 127, 255}).Draw(t, "exit-status")
			sc.Chans = []sshChan{chs}
		}
		for k := range sc.Chans {
			sc.Chans[k].Reqs[len(sc.Chans[k].Reqs)-1].Accept = true
			sc.Chans[k].Timing = genSSHTiming(t, shortPauses)
		}
		chs := &sc.Chans[rapid.IntRange(0, len(sc.Chans)-1).Draw(t, "slow-chan")]
		if rapid.IntRange(0, 5).Draw(t, "with-status") > 0 && chs.ExitStatus < 0 {
			chs.ExitStatus = rapid.SampledFrom([]int{0, 3, 255}).Draw(t, "exit-status")
		}
		long := rapid.SampledFrom([]int{500, 1100, 1500, 2000, 3000, 3000}).Draw(t, "long-ms")
		switch rapid.SampledFrom([]string{"exit", "exit", "exit", "close", "end", "piece"}).Draw(t, "slow-at") {
		case "exit":
			chs.Timing.ExitMs = long
			chs.Timing.EOFFirst = rapid.IntRange(0, 2).Draw(t, "eof-first") > 0
		case "close":
			chs.Timing.CloseMs = long
		case "end":
			chs.Timing.EndMs = long
		default:
			// the pause is taken before every piece but the first: share it out
			chs.Timing.PieceMs = long / maxInt(1, len(split(make([]byte, chs.BData.Len), chs.BCuts))-1)
		}
		c.Conns = append(c.Conns, sc)
	}
	return c
}

func genSSHCase(t *rapid.T) sshCase {
	n := rapid.SampledFrom([]int{1, 1, 2, 3}).Draw(t, "nconn")
	var c sshCase
	for i := 0; i < n; i++ {
		c.Conns = append(c.Conns, genSSHConn(t))
	}
	return c
}

func (c sshCase) nontrivial() bool {
	for _, sc := range c.Conns {
		n, ok := sc.expectedAttempts()
		relayed := n
		if ok {
			for _, chs := range sc.Chans {
				relayed += len(chs.Reqs)
				if chs.Reqs[len(chs.Reqs)-1].Accept && chs.CData.Len+chs.BData.Len > 0 {
					return true
				}
			}
		}
		if relayed >= 2 {
			return true
		}
	}
	return false
}

const sshTimingRule = "SSH backend schedule: 1..3 concurrent connections as in the SSH rule, login accepted, every channel started; the backend pauses between its actions (0..50 ms between data pieces, before the end of its output, between end of output and exit status - either order -, before its close) and on one channel of every connection one of these pauses is 0.5 / 1.1 / 1.5 / 2 / 3 s (half of them between end of output and exit status); same oracle: every byte and every request (exit status) the backend sends reaches the client whenever it is sent; the TestSSH generator draws the short pauses on 1 channel in 3; non-trivial as in the SSH rule"

const sshRule = "SSH: 1..3 concurrent x/crypto/ssh clients through ssh-proxy to a harness ssh server; 1..4 password attempts per connection (empty, NUL, non-ASCII, generated) of which the backend accepts one or none; after a login 1..2 session channels with 0..3 env/pty-req requests (want-reply or not, accepted or refused) then exec/shell (accepted or refused), well-formed or raw payloads, then channel data 0..64 KiB each way written in 1..5 pieces; oracle: backend's attempts, request types/flags/payloads and data == sent, client's replies and data == backend's, events for attempts and requests attributed to the client's address, decoy untouched; non-trivial = channel data exchanged or >=2 relayed requests (attempts + channel requests) on one connection"

func TestSSH(t *testing.T) {
	runSSH(t, "TestSSH", sshRule, vlib.Open(prop).Pick(350, 2500), genSSHCase)
}

// TestSSHBackendTiming: the backend's schedule as a dimension of its own (few cases, each
// as long as its longest pause).
func TestSSHBackendTiming(t *testing.T) {
	runSSH(t, "TestSSHBackendTiming", sshTimingRule, vlib.Open(prop).Pick(5, 60), genSSHTimingCase)
}

func runSSH(t *testing.T, name, rule string, checks int, gen func(*rapid.T) sshCase) {
	r := vlib.Open(prop)
	r.Rule(rule)
	var rc sshCase
	if vlib.ReplayCase(name, &rc) {
		if err := checkSSH(t, rc); err != nil {
			if isInfra(err) {
				infraExit(err)
			}
			r.Violation(t, name, rc, err.Error())
		}
		return
	}
	if vlib.Replaying() {
		return
	}
	getEnv(t)
	r.Rapid(t, name, checks, func(rt *rapid.T) {
		c := gen(rt)
		fp := ""
		if c.nontrivial() {
			fp = vlib.JSON(c)
		}
		login := "rejected"
		for _, sc := range c.Conns {
			if _, ok := sc.expectedAttempts(); ok {
				login = "accepted"
			}
		}
		r.Case(fmt.Sprintf("ssh/login-%s/clients=%d", login, len(c.Conns)), fp, func() interface{} { return c })
		for _, sc := range c.Conns {
			n, ok := sc.expectedAttempts()
			r.Label(fmt.Sprintf("ssh/conn/attempts=%d/accepted=%v", n, ok), 1)
			for _, chs := range sc.Chans {
				for _, rq := range chs.Reqs {
					r.Label("ssh/request/"+rq.Type, 1)
				}
				if ok && chs.Reqs[len(chs.Reqs)-1].Accept {
					labelSSHTiming(r, chs)
				}
			}
		}
		if err := checkSSH(t, c); err != nil {
			if isInfra(err) {
				infraExit(err)
			}
			r.Fail(rt, name, c, "%v", err)
		}
	})
}

func pauseClass(ms int) string {
	switch {
	case ms == 0:
		return "0"
	case ms < 1000:
		return "<1s"
	default:
		return ">=1s"
	}
}

func labelSSHTiming(r *vlib.Run, chs sshChan) {
	tm := chs.Timing
	order := "exit-status-then-eof"
	if tm.EOFFirst {
		order = "eof-then-exit-status"
	}
	if chs.ExitStatus < 0 {
		order = "eof-no-exit-status"
	}
	r.Label("ssh/backend-schedule/"+order+"/pause="+pauseClass(tm.ExitMs), 1)
	r.Label("ssh/backend-schedule/before-close/pause="+pauseClass(tm.CloseMs), 1)
	r.Label("ssh/backend-schedule/before-end-of-output/pause="+pauseClass(tm.EndMs), 1)
	if tm.PieceMs > 0 && len(split(make([]byte, chs.BData.Len), chs.BCuts)) > 1 {
		r.Label("ssh/backend-schedule/between-data-pieces/paused", 1)
	}
}
