//go:build verif && linux
// +build verif,linux

package c14

// Long conversations: "every frame it emits ... with correct IPv4 header and TCP
// checksums" quantifies over every value the header fields take. The listener numbers the
// IPv4 packets of a connection consecutively from a random start, so the identification
// field - and with it the header sum and its carries - only sees many values on a
// connection that gets many replies, and the address words only vary when the peers do.
// A walk is one connection from a peer drawn from the whole unicast IPv4 space on which
// the client sends many small in-order segments (each is answered with one ACK); the
// longest walks get more than 65,536 replies, so every identification value occurs for
// that address pair and reply length. Every emitted frame is decoded and verified by the
// independent decoder: well-formed, addressed back to the sender (hardware address,
// addresses, ports), IPv4 header checksum, TCP checksum, and an acknowledgement number
// that does not run ahead of what the client has sent.

import (
	"fmt"
	"testing"

	"pgregory.net/rapid"

	cl "verif/canarylab"
	"verif/vlib"
)

type walkCase struct {
	Peer      string `json:"peer"` // client address
	Sport     uint16 `json:"sport"`
	Dport     uint16 `json:"dport"`
	ISN       uint32 `json:"isn"`
	Segments  int    `json:"segments"`
	SegLens   []int  `json:"seg_lens"`   // segment lengths, cycled (1..3 bytes: every reply is a bare ACK)
	PushEvery int    `json:"push_every"` // every n-th segment carries PSH (0: none - the port handler stays in its read)
}

// fullCycle is a walk with more replies than there are IPv4 identification values.
const fullCycle = 66000

func parseIP4(s string) (cl.IP4, error) {
	var a, b, c, d int
	if n, err := fmt.Sscanf(s, "%d.%d.%d.%d", &a, &b, &c, &d); n != 4 || err != nil || a|b|c|d < 0 || a > 255 || b > 255 || c > 255 || d > 255 {
		return cl.IP4{}, fmt.Errorf("bad address %q", s)
	}
	return cl.IP4{byte(a), byte(b), byte(c), byte(d)}, nil
}

type walkStats struct {
	frames int
	ids    int
}

// runWalk plays the walk on a fresh canary of ch.
func runWalk(l cl.Local, ch *cl.Child, w walkCase) (walkStats, error) {
	var st walkStats
	ip, err := parseIP4(w.Peer)
	if err != nil || len(w.SegLens) == 0 || w.Segments < 1 {
		return st, fmt.Errorf("infra: bad walk case: %v", err)
	}
	peer := cl.Peer{IP: ip, MAC: cl.MAC{0x02, 0xc4, ip[0], ip[1], ip[2], ip[3]}}
	cfg := cl.Config{Interfaces: []string{l.Name}, ARP: []cl.ARPEntry{{IP: peer.IP.String(), MAC: peer.MAC.String(), Interface: l.Name}}}
	k, err := ch.New(cfg)
	if err != nil {
		return st, fmt.Errorf("infra: %v", err)
	}
	defer k.Close()

	sent := uint32(0) // stream bytes handed to Walk so far
	ids := map[uint16]bool{}
	what := fmt.Sprintf("connection %s:%d > %s:%d", peer.IP, w.Sport, l.IP, w.Dport)
	verify := func(raws [][]byte) ([]*cl.TCPFrame, error) {
		var out []*cl.TCPFrame
		for _, raw := range raws {
			f, err := cl.DecodeTCPFrame(raw)
			if err != nil {
				return nil, fmt.Errorf("%s: the listener emitted a frame that does not decode as Ethernet/IPv4/TCP: %v (frame %x)", what, err, raw)
			}
			st.frames++
			ids[f.ID] = true
			if !f.IPSumOK {
				return nil, fmt.Errorf("%s: emitted frame %d of the conversation has a wrong IPv4 header checksum (ip id %#04x, total length %d, %s -> %s): %s (frame %x)", what, st.frames, f.ID, f.TotalLen, f.SrcIP, f.DstIP, f, raw)
			}
			if !f.TCPSumOK {
				return nil, fmt.Errorf("%s: emitted frame %d of the conversation has a wrong TCP checksum: %s (frame %x)", what, st.frames, f, raw)
			}
			if f.DstIP != peer.IP || f.DstMAC != peer.MAC || f.Dport != w.Sport {
				return nil, fmt.Errorf("%s: emitted frame is not addressed back to the sender %s (%s) port %d: %s", what, peer.IP, peer.MAC, w.Sport, f)
			}
			if f.SrcIP != l.IP || f.Sport != w.Dport {
				return nil, fmt.Errorf("%s: emitted frame does not come from the address and port the client talks to: %s", what, f)
			}
			if f.Flags&cl.ACK != 0 {
				if d := f.Ack - (w.ISN + 1); d > sent {
					return nil, fmt.Errorf("%s: the listener acknowledges %d, outside ISN+1 .. ISN+1+%d bytes sent (ISN %d): %s", what, f.Ack, sent, w.ISN, f)
				}
			}
			out = append(out, f)
		}
		return out, nil
	}
	base := cl.TCPFields{Sport: w.Sport, Dport: w.Dport, DataOff: -1, Window: 64240}
	syn := base
	syn.Seq, syn.Flags, syn.Options = w.ISN, cl.SYN, []byte{2, 4, 5, 0xb4}
	tx, _, err := k.Walk([][]byte{l.TCPFrame(peer, syn)})
	if err != nil {
		return st, fmt.Errorf("infra: %v", err)
	}
	fs, verr := verify(tx)
	if verr != nil {
		return st, verr
	}
	var srvNext uint32
	found := false
	for _, f := range fs {
		if f.Flags&(cl.SYN|cl.ACK) == cl.SYN|cl.ACK && f.Ack == w.ISN+1 {
			srvNext, found = f.Seq+1, true
		}
	}
	if !found {
		return st, fmt.Errorf("%s: SYN with ISN %d was not answered with a SYN-ACK acknowledging %d (%d frame(s) emitted)", what, w.ISN, w.ISN+1, len(fs))
	}
	ack := base
	ack.Seq, ack.Ack, ack.Flags = w.ISN+1, srvNext, cl.ACK
	frames := [][]byte{l.TCPFrame(peer, ack)}
	replies := 0
	flush := func() error {
		tx, _, err := k.Walk(frames)
		frames = frames[:0]
		if err != nil {
			return fmt.Errorf("infra: %v", err)
		}
		fs, verr := verify(tx)
		replies += len(fs)
		return verr
	}
	for i := 0; i < w.Segments; i++ {
		n := w.SegLens[i%len(w.SegLens)]
		if n < 1 {
			n = 1
		}
		d := base
		d.Seq, d.Ack, d.Flags = w.ISN+1+sent, srvNext, cl.ACK
		if w.PushEvery > 0 && (i+1)%w.PushEvery == 0 {
			d.Flags |= cl.PSH
		}
		d.Payload = make([]byte, n)
		for j := range d.Payload {
			d.Payload[j] = byte('a' + (i+j)%26)
		}
		sent += uint32(n)
		frames = append(frames, l.TCPFrame(peer, d))
		if len(frames) >= 4096 {
			if err := flush(); err != nil {
				return st, err
			}
		}
	}
	if err := flush(); err != nil {
		return st, err
	}
	st.ids = len(ids)
	if replies < w.Segments {
		return st, fmt.Errorf("%s: %d in-order data segments got only %d frames in reply (each needs its acknowledgement)", what, w.Segments, replies)
	}
	return st, nil
}

// checkWalk runs the walk; a failure is confirmed on a fresh listener with the walk
// extended to a full identification cycle (the listener picks the first identification
// value at random, a shorter walk need not pass the same values again).
func checkWalk(r *vlib.Run, l cl.Local, h *host, w walkCase) (walkStats, walkCase, error, error) {
	ch, err := h.get()
	if err != nil {
		return walkStats{}, w, nil, err
	}
	st, e1 := runWalk(l, ch, w)
	if e1 == nil {
		return st, w, nil, nil
	}
	if isInfra(e1) {
		if ch.Dead() {
			return st, w, fmt.Errorf("the canary process died during a conversation of well-formed segments: %s", ch.Death()), nil
		}
		return st, w, nil, e1
	}
	full := w
	if full.Segments < fullCycle {
		full.Segments = fullCycle
	}
	h.close()
	ch, err = h.get()
	if err != nil {
		return st, w, nil, err
	}
	_, e2 := runWalk(l, ch, full)
	if e2 == nil {
		r.Flaky(fmt.Sprintf("walk failed once, passed when repeated over a full identification cycle: %v", e1))
		return st, w, nil, nil
	}
	if isInfra(e2) {
		return st, w, nil, e2
	}
	return st, full, fmt.Errorf("%v [first seen as: %s]", e2, trim(e1.Error(), 300)), nil
}

func trim(s string, n int) string {
	if len(s) > n {
		return s[:n] + "..."
	}
	return s
}

func genOctet(rt *rapid.T, label string) byte {
	if rapid.Bool().Draw(rt, label+"-edge") {
		return rapid.SampledFrom([]byte{0, 1, 2, 127, 128, 254, 255}).Draw(rt, label)
	}
	return rapid.Byte().Draw(rt, label)
}

func genWalk(rt *rapid.T, l cl.Local, lengths []int) walkCase {
	var w walkCase
	for {
		// the whole unicast space, high first octets as likely as low ones
		a := byte(rapid.IntRange(1, 223).Draw(rt, "a"))
		if rapid.Bool().Draw(rt, "a-high") {
			a = byte(rapid.IntRange(128, 223).Draw(rt, "a-hi"))
		}
		ip := cl.IP4{a, genOctet(rt, "b"), genOctet(rt, "c"), genOctet(rt, "d")}
		if a == 127 || ip == l.IP {
			continue
		}
		w.Peer = ip.String()
		break
	}
	w.Sport = rapid.SampledFrom([]uint16{1000, 1, 40000, 65535, 33333, 443}).Draw(rt, "sport")
	if rapid.IntRange(0, 2).Draw(rt, "decoded") == 0 {
		w.Dport = rapid.SampledFrom(decodedPorts).Draw(rt, "dport")
	} else {
		w.Dport = rapid.SampledFrom(undecodedPorts).Draw(rt, "dport")
	}
	if rapid.Bool().Draw(rt, "isn-boundary") {
		w.ISN = rapid.SampledFrom(isnValues).Draw(rt, "isn")
	} else {
		w.ISN = rapid.Uint32().Draw(rt, "isn")
	}
	w.Segments = rapid.SampledFrom(lengths).Draw(rt, "segments")
	w.SegLens = rapid.SliceOfN(rapid.IntRange(1, 3), 1, 4).Draw(rt, "seg-lens")
	w.PushEvery = rapid.SampledFrom([]int{0, 1, 2, 7, 1000}).Draw(rt, "push-every")
	return w
}

const walkRule = "long conversations: one connection from a peer drawn from the whole unicast IPv4 space (first octet 1..223 without 127, half of the draws >= 128; other octets boundary-biased) to a decoded or undecoded port, boundary or random ISN, 300 / 5,000 / 66,000 in-order segments of 1..3 bytes (cycled lengths, PSH on none / every / every n-th) - 66,000 replies pass every IPv4 identification value for that address pair; every emitted frame decoded and verified (well-formed, addressed back to the sender, IPv4 header checksum, TCP checksum, acknowledgement not ahead of the bytes sent; every segment answered). non-trivial = the handshake completed and >= 300 replies were verified; distinct by (peer, ports, ISN, lengths, push placement)"

func TestLongWalks(t *testing.T) {
	r := vlib.Open(prop)
	l := env(t)
	h := &host{}
	defer h.close()
	var w walkCase
	if vlib.ReplayCase("TestLongWalks", &w) {
		_, _, verr, infra := checkWalk(r, l, h, w)
		if infra != nil {
			t.Fatalf("%v", infra)
		}
		if verr != nil {
			r.Violation(t, "TestLongWalks", w, verr.Error())
		}
		return
	}
	r.Rule(ruleText)
	r.Rule(walkRule)
	// the first walk of every shard is a full identification cycle
	lengths := []int{fullCycle, fullCycle, 5000, 300}
	first := true
	reported := false
	box := &cl.Infra{}
	r.Rapid(t, "TestLongWalks", r.Pick(3, 24), func(rt *rapid.T) {
		if box.Err() != nil || reported {
			rapid.Bool().Draw(rt, "skipped")
			return
		}
		w := genWalk(rt, l, lengths)
		if first {
			w.Segments = fullCycle
			first = false
		}
		class := "partial"
		if w.Segments >= fullCycle {
			class = "full-id-cycle"
		}
		r.Case("walk/"+class, vlib.JSON(w), func() interface{} { return w })
		st, rep, verr, infra := checkWalk(r, l, h, w)
		if infra != nil {
			box.Set(infra)
			return
		}
		r.Label("walk/frames-verified", int64(st.frames))
		if st.ids >= 65536 {
			r.Label("walk/all-65536-ip-ids-seen", 1)
		}
		if verr != nil {
			// reported directly: shrinking would repeat walks of 66,000 segments
			reported = true
			r.Violation(t, "TestLongWalks", rep, verr.Error())
		}
	})
	if e := box.Err(); e != nil {
		t.Fatalf("infra: %v", e)
	}
}
