package c18

import (
	"bufio"
	"bytes"
	"crypto/x509"
	"encoding/hex"
	"encoding/json"
	"fmt"
	"os"
	"os/exec"
	"path/filepath"
	"regexp"
	"strings"
	"sync"
	"syscall"
	"testing"
	"time"

	"golang.org/x/crypto/ssh"
	"pgregory.net/rapid"

	"verif/vlib"
)

const prop = "C18"

func TestMain(m *testing.M) {
	if spec := os.Getenv("VERIF_C18_CHILD"); spec != "" {
		childMain(spec) // never returns
		return
	}
	vlib.Main(m, prop)
}

// ---------------------------------------------------------------- case model

// runT is one process start on the data directory.
type runT struct {
	SSH   string `json:"ssh,omitempty"` // "", "ssh-simulator", "ssh-auth"
	FTP   bool   `json:"ftp,omitempty"`
	SMTP  bool   `json:"smtp,omitempty"`
	LDAP  bool   `json:"ldap,omitempty"`
	Agent bool   `json:"agent,omitempty"`
	// Kill < 0: the run completes and its identity is observed. Kill >= 0: the starting
	// process is SIGKILLed Kill/killSteps of the way through the estimated start-up time.
	Kill int `json:"kill"`
	// KillRec > 0: the starting process is SIGKILLed as soon as KillRec identity records (ssh
	// key, ftp/smtp/ldap key and certificate, agent key) are in the store's value log - a
	// kill aimed at an on-disk state instead of an instant.
	KillRec int `json:"kill_rec,omitempty"`
	// DelayMs is filled in when a case is recorded (the delay that was actually used) and
	// honoured on replay.
	DelayMs float64 `json:"delay_ms,omitempty"`
}

func (r runT) killed() bool { return r.Kill >= 0 || r.KillRec > 0 }

func (r runT) set() string {
	var s []string
	if r.SSH != "" {
		s = append(s, r.SSH)
	}
	for _, x := range []struct {
		on bool
		n  string
	}{{r.FTP, "ftp"}, {r.SMTP, "smtp"}, {r.LDAP, "ldap"}, {r.Agent, "agent"}} {
		if x.on {
			s = append(s, x.n)
		}
	}
	return strings.Join(s, "+")
}

func (r runT) enabled() []string {
	var s []string
	if r.SSH != "" {
		s = append(s, "ssh")
	}
	if r.FTP {
		s = append(s, "ftp")
	}
	if r.SMTP {
		s = append(s, "smtp")
	}
	if r.LDAP {
		s = append(s, "ldap")
	}
	if r.Agent {
		s = append(s, "agent")
	}
	return s
}

// histCase is one restart history on one data directory.
type histCase struct {
	// TokenFile: state of <datadir>/token before the first run, as a kill during the first
	// write can leave it: "absent", or "content" with Token = "" (empty), a proper prefix of
	// a valid token, or a complete valid token.
	TokenFile string `json:"token_file"`
	Token     string `json:"token"`
	// DirExists: the data directory exists (empty) before the first run; forced when a token
	// file is placed.
	DirExists bool   `json:"dir_exists"`
	Runs      []runT `json:"runs"`
}

const killSteps = 40

// maxReports bounds the replay files one enumerator writes per process.
const maxReports = 2

var tokenRe = regexp.MustCompile(`^[0-9a-v]{20}$`)

func (c histCase) crashState() bool {
	return c.TokenFile == "content" && len(c.Token) < 20
}

func (c histCase) tokenLabel() string {
	switch {
	case c.TokenFile != "content":
		return "absent"
	case c.Token == "":
		return "empty"
	case len(c.Token) < 20:
		return "prefix"
	}
	return "complete"
}

// nontrivial: >=1 restart after a crash state (crash-state token file or killed start), or
// a restart with a changed service set.
func (c histCase) nontrivial() bool {
	completed := 0
	tainted := c.crashState()
	for i, r := range c.Runs {
		if i > 0 && r.set() != c.Runs[i-1].set() {
			return true
		}
		if r.killed() {
			tainted = true
			continue
		}
		if tainted {
			return true
		}
		completed++
	}
	return false
}

// ---------------------------------------------------------------- child management

type childResult struct {
	Identity   *Identity
	SawBoot    bool
	SawStarted bool
	BootAt     time.Duration // since exec: child mode entered (runtime and package init done)
	StartedAt  time.Duration // since exec: every service constructed
	Killed     bool          // we sent SIGKILL (kill run)
	KilledAt   time.Duration
	Exit       string
	Fatal      string
	Output     string // tail of stdout+stderr
	HarnessErr string // could not exec etc.
}

type tailBuf struct {
	mu sync.Mutex
	b  []byte
}

func (t *tailBuf) Write(p []byte) (int, error) {
	t.mu.Lock()
	t.b = append(t.b, p...)
	if len(t.b) > 16384 {
		t.b = append([]byte(nil), t.b[len(t.b)-8192:]...)
	}
	t.mu.Unlock()
	return len(p), nil
}

func (t *tailBuf) String() string {
	t.mu.Lock()
	defer t.mu.Unlock()
	s := ansi.ReplaceAllString(string(t.b), "")
	if len(s) > 3000 {
		s = s[len(s)-3000:]
	}
	return s
}

var selfExe = func() string {
	p, err := os.Executable()
	if err != nil {
		return os.Args[0]
	}
	return p
}()

const childDeadline = 150 * time.Second

var recordNames = []string{"ssh.private-key", "ftp.pemkey", "ftp.pemcert", "smtp.pemkey", "smtp.pemcert", "ldap.pemkey", "ldap.pemcert", "agent.key"}

// diskRecords reports which identity records the store's value log holds (by name; the
// value log is append-only and holds keys in clear). Used to aim kills and to label the
// on-disk state a kill left behind - never as an oracle.
func diskRecords(dataDir string) map[string]bool {
	out := map[string]bool{}
	files, _ := filepath.Glob(filepath.Join(dataDir, "badger.db", "*.vlog"))
	for _, f := range files {
		data, err := os.ReadFile(f)
		if err != nil {
			continue
		}
		for _, n := range recordNames {
			if bytes.Contains(data, []byte(n)) {
				out[n] = true
			}
		}
	}
	return out
}

// diskLabel classifies the state of the data directory after a kill.
func diskLabel(dataDir string) string {
	if _, err := os.Stat(dataDir); err != nil {
		return "no-datadir"
	}
	if _, err := os.Stat(filepath.Join(dataDir, "badger.db", "MANIFEST")); err != nil {
		return "store-not-initialised"
	}
	tok, err := os.ReadFile(filepath.Join(dataDir, "token"))
	if err != nil {
		return "no-token"
	}
	if !tokenRe.Match(tok) {
		return "token-malformed"
	}
	recs := diskRecords(dataDir)
	for _, s := range []string{"ftp", "smtp", "ldap"} {
		if recs[s+".pemkey"] && !recs[s+".pemcert"] {
			return "key-without-certificate"
		}
	}
	return fmt.Sprintf("records=%d", len(recs))
}

// runChild starts one sensor process on dataDir. kill >= 0: SIGKILL after that delay;
// killRec > 0: SIGKILL as soon as that many identity records are on disk; otherwise wait
// for the process to finish.
func runChild(dataDir string, r runT, kill time.Duration, killRec int) childResult {
	var res childResult
	spec := Spec{DataDir: dataDir, SSH: r.SSH, FTP: r.FTP, SMTP: r.SMTP, LDAP: r.LDAP, Agent: r.Agent}
	sj, _ := json.Marshal(spec)
	pr, pw, err := os.Pipe()
	if err != nil {
		res.HarnessErr = "pipe: " + err.Error()
		return res
	}
	defer pr.Close()
	cmd := exec.Command(selfExe, "-test.run=^$")
	var env []string
	for _, e := range os.Environ() {
		if strings.HasPrefix(e, "VERIF_OUT=") || strings.HasPrefix(e, "VERIF_REPLAY=") || strings.HasPrefix(e, "VERIF_C18_CHILD=") || strings.HasPrefix(e, "VERIF_DATADIR=") {
			continue
		}
		env = append(env, e)
	}
	cmd.Env = append(env, "VERIF_C18_CHILD="+string(sj))
	out := &tailBuf{}
	cmd.Stdout = out
	cmd.Stderr = out
	cmd.ExtraFiles = []*os.File{pw}
	cmd.Dir = filepath.Dir(dataDir)
	t0 := time.Now()
	if err := cmd.Start(); err != nil {
		pw.Close()
		res.HarnessErr = "exec: " + err.Error()
		return res
	}
	pw.Close()
	var mu sync.Mutex
	var killTimer *time.Timer
	doKill := func() {
		mu.Lock()
		res.Killed = true
		res.KilledAt = time.Since(t0)
		mu.Unlock()
		cmd.Process.Signal(syscall.SIGKILL)
	}
	stopWatch := make(chan struct{})
	if killRec > 0 {
		base := len(diskRecords(dataDir))
		go func() {
			for {
				select {
				case <-stopWatch:
					return
				default:
				}
				if len(diskRecords(dataDir))-base >= killRec {
					doKill()
					return
				}
				time.Sleep(150 * time.Microsecond)
			}
		}()
	} else if kill >= 0 {
		killTimer = time.AfterFunc(kill, doKill)
	}
	guard := time.AfterFunc(childDeadline, func() {
		mu.Lock()
		res.HarnessErr = fmt.Sprintf("child exceeded the harness deadline of %v", childDeadline)
		mu.Unlock()
		cmd.Process.Signal(syscall.SIGKILL)
	})
	done := make(chan struct{})
	go func() {
		defer close(done)
		sc := bufio.NewScanner(pr)
		sc.Buffer(make([]byte, 1<<20), 1<<24)
		for sc.Scan() {
			var m childMsg
			if json.Unmarshal(sc.Bytes(), &m) != nil {
				continue
			}
			mu.Lock()
			switch m.Ev {
			case "boot":
				res.SawBoot = true
				res.BootAt = time.Since(t0)
			case "started":
				res.SawStarted = true
				res.StartedAt = time.Since(t0)
			case "identity":
				res.Identity = m.Identity
			case "fatal":
				res.Fatal = m.Msg
			}
			mu.Unlock()
		}
	}()
	werr := cmd.Wait()
	close(stopWatch)
	guard.Stop()
	if killTimer != nil {
		killTimer.Stop()
	}
	<-done
	mu.Lock()
	defer mu.Unlock()
	if werr != nil {
		res.Exit = werr.Error()
	} else {
		res.Exit = "exit status 0"
		res.Killed = false // it had finished by itself when the signal was sent
	}
	res.Output = out.String()
	return res
}

// ---------------------------------------------------------------- calibration

var (
	calOnce                   sync.Once
	calBoot, calCold, calWarm time.Duration
	calErr                    string
)

// calibrate measures the start-up time (exec until every service is constructed) of a first
// start that generates all four RSA keys, and of a start that finds everything persisted.
func calibrate() {
	calOnce.Do(func() {
		base, err := os.MkdirTemp("", "c18-cal-")
		if err != nil {
			calErr = err.Error()
			return
		}
		defer os.RemoveAll(base)
		all := runT{SSH: "ssh-simulator", FTP: true, SMTP: true, LDAP: true, Agent: true, Kill: -1}
		a := runChild(filepath.Join(base, "data"), all, -1, 0)
		if a.Identity == nil || !a.SawStarted {
			calErr = fmt.Sprintf("calibration child did not come up: %s %s %s\n%s", a.HarnessErr, a.Fatal, a.Exit, a.Output)
			return
		}
		b := runChild(filepath.Join(base, "data"), all, -1, 0)
		if b.Identity == nil || !b.SawStarted {
			calErr = fmt.Sprintf("second calibration child did not come up: %s %s %s\n%s", b.HarnessErr, b.Fatal, b.Exit, b.Output)
			return
		}
		calCold, calWarm = a.StartedAt, b.StartedAt
		if calCold < calWarm {
			calCold = calWarm
		}
		calBoot = a.BootAt
		if b.BootAt < calBoot {
			calBoot = b.BootAt
		}
		// start a little before the earliest observed entry into the sensor's own code
		calBoot = calBoot * 8 / 10
	})
}

// observeTiming keeps the start-up estimates current: machine load changes during a run.
func observeTiming(res childResult, r runT, known seenMap) {
	if !res.SawStarted || !res.SawBoot {
		return
	}
	for _, it := range r.enabled() {
		if _, ok := known[it]; !ok && it != "agent" {
			return // generated keys in this run: not a warm start
		}
	}
	calWarm = (3*calWarm + res.StartedAt) / 4
	b := res.BootAt * 8 / 10
	calBoot = (3*calBoot + b) / 4
	if calCold < calWarm {
		calCold = calWarm
	}
}

// killDelay maps step k of the kill grid to a delay after exec: from just before the
// process enters the sensor's code to 1.2x the expected end of start-up of a run that has
// to generate newRSA RSA keys.
func killDelay(k, newRSA int) time.Duration {
	per := (calCold - calWarm) / 4
	if per < 20*time.Millisecond {
		per = 20 * time.Millisecond
	}
	span := calWarm + time.Duration(newRSA)*per - calBoot
	if span < 10*time.Millisecond {
		span = 10 * time.Millisecond
	}
	return calBoot + time.Duration(float64(span)*1.2*float64(k)/killSteps)
}

// ---------------------------------------------------------------- oracle

type verdict struct {
	Violation string
	Infra     string
	Flaky     []string
	Notes     []string
	Labels    []string
	Used      histCase // the case with the delays that were used
}

func wellFormed(item, v string) error {
	raw, err := hex.DecodeString(v)
	if err != nil || len(raw) == 0 {
		return fmt.Errorf("empty or non-hex value %q", v)
	}
	switch item {
	case "ssh":
		if _, err := ssh.ParsePublicKey(raw); err != nil {
			return fmt.Errorf("host key does not parse: %v", err)
		}
	case "ftp", "smtp", "ldap":
		if _, err := x509.ParseCertificate(raw); err != nil {
			return fmt.Errorf("certificate does not parse: %v", err)
		}
	case "agent":
		if len(raw) != 32 {
			return fmt.Errorf("agent public key has %d bytes, want 32", len(raw))
		}
		zero := true
		for _, b := range raw {
			if b != 0 {
				zero = false
			}
		}
		if zero {
			return fmt.Errorf("agent public key is all zero")
		}
	}
	return nil
}

func short(v string) string {
	if len(v) > 24 {
		return v[:12] + ".." + v[len(v)-8:] + fmt.Sprintf("(%d hex chars)", len(v))
	}
	return v
}

func describe(res childResult) string {
	return fmt.Sprintf("boot=%v started=%v fatal=%q exit=%q harness=%q output tail: %s", res.SawBoot, res.SawStarted, res.Fatal, res.Exit, res.HarnessErr, res.Output)
}

// checkHistory executes the history with separate processes on one fresh data directory
// and applies the oracle of the statement.
func checkHistory(c histCase) (v verdict) {
	v.Used = c
	v.Used.Runs = append([]runT(nil), c.Runs...)
	calibrate()
	if calErr != "" {
		v.Infra = "calibration: " + calErr
		return
	}
	base, err := os.MkdirTemp("", "c18-")
	if err != nil {
		v.Infra = err.Error()
		return
	}
	defer os.RemoveAll(base)
	dataDir := filepath.Join(base, "data")
	if c.DirExists || c.TokenFile == "content" {
		if err := os.Mkdir(dataDir, 0755); err != nil {
			v.Infra = err.Error()
			return
		}
	}
	if c.TokenFile == "content" {
		if err := os.WriteFile(filepath.Join(dataDir, "token"), []byte(c.Token), 0600); err != nil {
			v.Infra = err.Error()
			return
		}
	}
	known := seenMap{}
	established := map[string]bool{} // RSA items some earlier completed run has shown
	tainted := c.crashState()
	why := ""
	if tainted {
		why = fmt.Sprintf("token file left %s (%q)", c.tokenLabel(), c.Token)
	}
	for i, r := range c.Runs {
		newRSA := 0
		for _, it := range r.enabled() {
			if it != "agent" && !established[it] {
				newRSA++
			}
		}
		if r.killed() {
			var res childResult
			how := ""
			if r.KillRec > 0 {
				res = runChild(dataDir, r, -1, r.KillRec)
				how = fmt.Sprintf("when %d more identity records were on disk", r.KillRec)
			} else {
				delay := killDelay(r.Kill, newRSA)
				if r.DelayMs > 0 {
					delay = time.Duration(r.DelayMs * float64(time.Millisecond))
				}
				v.Used.Runs[i].DelayMs = float64(delay) / float64(time.Millisecond)
				res = runChild(dataDir, r, delay, 0)
				how = fmt.Sprintf("%.0f ms after exec", v.Used.Runs[i].DelayMs)
			}
			if res.HarnessErr != "" {
				v.Infra = fmt.Sprintf("run %d: %s", i, res.HarnessErr)
				return
			}
			if res.Killed {
				tainted = true
				phase := "before-boot"
				if res.SawStarted {
					phase = "after-started"
				} else if res.SawBoot {
					phase = "during-start-up"
				}
				v.Labels = append(v.Labels, "kill:"+phase, "disk-after-kill:"+diskLabel(dataDir))
				if why == "" {
					why = fmt.Sprintf("run %d SIGKILLed %s (%s, left %s)", i, how, phase, diskLabel(dataDir))
				}
				continue
			}
			// the process finished before the kill: it is a completed run
			v.Labels = append(v.Labels, "kill:too-late")
			if msg, infra := judge(&v, c, i, r, res, dataDir, tainted, why, known); msg != "" || infra != "" {
				v.Violation, v.Infra = msg, infra
				return
			}
		} else {
			res := runChild(dataDir, r, -1, 0)
			if msg, infra := judge(&v, c, i, r, res, dataDir, tainted, why, known); msg != "" || infra != "" {
				v.Violation, v.Infra = msg, infra
				return
			}
		}
		for _, it := range r.enabled() {
			established[it] = true
		}
	}
	return
}

type seenT struct {
	val string
	run int
}

type seenMap = map[string]seenT

// judge applies the oracle to one completed run. A run that did not come up or did not
// present an enabled item is repeated once (that is one more restart of the same history);
// only a reproduced failure counts.
func judge(v *verdict, c histCase, i int, r runT, res childResult, dataDir string, tainted bool, why string, known seenMap) (violation, infra string) {
	ctx := fmt.Sprintf("run %d (services %s)", i, r.set())
	if tainted {
		ctx += " after " + why
	}
	attempt := func(res childResult) (problem string, harness bool) {
		if res.HarnessErr != "" {
			return res.HarnessErr, true
		}
		if res.Identity == nil {
			return "the sensor did not come up: " + describe(res), false
		}
		for _, it := range r.enabled() {
			if e, bad := res.Identity.Errs[it]; bad {
				if strings.HasPrefix(e, "infra:") {
					// the environment kept the harness from looking at this item in this
					// run (loopback sockets): the run simply does not observe it
					continue
				}
				return fmt.Sprintf("enabled service %s presented no identity: %s", it, e), false
			}
			if _, ok := res.Identity.Items[it]; !ok {
				return fmt.Sprintf("enabled service %s presented no identity", it), false
			}
		}
		return "", false
	}
	problem, harness := attempt(res)
	if problem != "" {
		first := problem
		res = runChild(dataDir, r, -1, 0)
		problem, harness = attempt(res)
		if problem == "" {
			v.Flaky = append(v.Flaky, fmt.Sprintf("%s: %s - not reproduced by an immediate further restart", ctx, trunc(first, 300)))
		} else if harness || (!tainted && len(known) == 0) {
			// the very first start of an undisturbed history: nothing to compare with, this
			// is the harness / environment failing to observe, not an identity question
			return "", fmt.Sprintf("%s: %s", ctx, problem)
		} else {
			// an earlier run of this history came up and presented its identity in this very
			// environment (or the history contains a crash state): the restart lost it
			return fmt.Sprintf("%s: %s", ctx, problem), ""
		}
	}
	id := res.Identity
	observeTiming(res, r, known)
	// token
	if len(id.Tokens) != 1 {
		return fmt.Sprintf("%s: %d captured events carry %d different token values %q, want one sensor token", ctx, id.Events, len(id.Tokens), id.Tokens), ""
	}
	tok := id.Tokens[0]
	if !tokenRe.MatchString(tok) {
		return fmt.Sprintf("%s: events carry token %q which is not a well-formed 20-character xid", ctx, tok), ""
	}
	if k, ok := known["token"]; ok && k.val != tok {
		return fmt.Sprintf("%s: token on events is %q, but run %d on the same data directory had %q", ctx, tok, k.run, k.val), ""
	} else if !ok {
		known["token"] = seenT{tok, i}
	} else {
		v.Labels = append(v.Labels, "compared:token")
	}
	for _, it := range r.enabled() {
		if e := id.Errs[it]; strings.HasPrefix(e, "infra:") {
			v.Labels = append(v.Labels, "unobservable:"+it)
			v.Notes = append(v.Notes, fmt.Sprintf("%s: %s not observed: %s", ctx, it, trunc(e, 200)))
			continue
		}
		val := id.Items[it]
		if err := wellFormed(it, val); err != nil {
			return fmt.Sprintf("%s: %s identity is not well-formed: %v", ctx, it, err), ""
		}
		if k, ok := known[it]; ok && k.val != val {
			return fmt.Sprintf("%s: %s identity is %s, but run %d on the same data directory presented %s", ctx, it, short(val), k.run, short(k.val)), ""
		} else if !ok {
			known[it] = seenT{val, i}
		} else {
			v.Labels = append(v.Labels, "compared:"+it)
		}
	}
	return "", ""
}

func trunc(s string, n int) string {
	if len(s) > n {
		return s[:n] + "..."
	}
	return s
}

// ---------------------------------------------------------------- generators

const sampleToken = "9m4e2mr0ui3e8a215n4g"

func genRun(rt *rapid.T, i int, last bool) runT {
	var r runT
	r.SSH = rapid.SampledFrom([]string{"", "ssh-simulator", "ssh-auth", "ssh-simulator", "ssh-auth"}).Draw(rt, fmt.Sprintf("ssh%d", i))
	r.FTP = rapid.IntRange(0, 2).Draw(rt, fmt.Sprintf("ftp%d", i)) > 0
	r.SMTP = rapid.IntRange(0, 2).Draw(rt, fmt.Sprintf("smtp%d", i)) > 0
	r.LDAP = rapid.IntRange(0, 2).Draw(rt, fmt.Sprintf("ldap%d", i)) > 0
	r.Agent = rapid.IntRange(0, 2).Draw(rt, fmt.Sprintf("agent%d", i)) > 0
	r.Kill = -1
	if !last {
		switch p := rapid.IntRange(0, 9).Draw(rt, fmt.Sprintf("killp%d", i)); {
		case p < 3:
			r.Kill = rapid.IntRange(0, killSteps).Draw(rt, fmt.Sprintf("kill%d", i))
		case p < 5:
			r.KillRec = rapid.IntRange(1, 7).Draw(rt, fmt.Sprintf("killrec%d", i))
		}
	}
	return r
}

func genCase(rt *rapid.T) histCase {
	var c histCase
	switch rapid.IntRange(0, 5).Draw(rt, "tokenstate") {
	case 0, 1:
		c.TokenFile = "absent"
		c.DirExists = rapid.Bool().Draw(rt, "direxists")
	case 2:
		c.TokenFile = "content"
	case 3, 4:
		c.TokenFile = "content"
		full := rapid.StringMatching(`[0-9a-v]{20}`).Draw(rt, "token")
		c.Token = full[:rapid.IntRange(1, 19).Draw(rt, "cut")]
	case 5:
		c.TokenFile = "content"
		c.Token = rapid.StringMatching(`[0-9a-v]{20}`).Draw(rt, "token")
	}
	if c.TokenFile == "content" {
		c.DirExists = true
	}
	n := rapid.IntRange(2, 5).Draw(rt, "runs")
	for i := 0; i < n; i++ {
		c.Runs = append(c.Runs, genRun(rt, i, i == n-1))
	}
	return c
}

func account(r *vlib.Run, label string, c histCase, v verdict) {
	fp := ""
	if c.nontrivial() {
		fp = vlib.JSON(c)
	}
	r.Case(label, fp, func() interface{} { return v.Used })
	r.Label("token-file:"+c.tokenLabel(), 1)
	kills := 0
	changed := false
	for i, x := range c.Runs {
		if x.killed() {
			kills++
		}
		if i > 0 && x.set() != c.Runs[i-1].set() {
			changed = true
		}
	}
	if changed {
		r.Label("svcset:changed", 1)
	} else {
		r.Label("svcset:same", 1)
	}
	r.Label(fmt.Sprintf("kills=%d", kills), 1)
	for _, l := range v.Labels {
		r.Label(l, 1)
	}
	for _, f := range v.Flaky {
		r.Flaky(f)
	}
	for _, n := range v.Notes {
		r.Note("%s", n)
	}
}

const ruleText = "every run of a history is a separate OS process running the real server on one data directory; histories of 2..5 runs with drawn service sets {ssh-simulator|ssh-auth, ftp, smtp, ldap, agent listener}, initial token file absent / empty / proper prefix / complete, runs SIGKILLed at a delay on a 41-step grid from process boot to 1.2x the measured start-up time or as soon as 1..7 identity records reached the store; oracle: one well-formed token on all events, equal token / host key / certificates / agent key between completed runs that enable the item, a start after a crash state comes up well-formed; non-trivial = >=1 completed restart after a crash state (empty/prefix token file or a killed start) or a restart with a changed service set; distinct by whole history"

// ---------------------------------------------------------------- tests

// TestHistories: rapid-drawn restart histories.
func TestHistories(t *testing.T) {
	r := vlib.Open(prop)
	r.Rule(ruleText)
	var c histCase
	if vlib.ReplayCase("TestHistories", &c) {
		v := checkHistory(c)
		if v.Infra != "" {
			t.Fatalf("infra: %s", v.Infra)
		}
		if v.Violation != "" {
			r.Violation(t, "TestHistories", v.Used, v.Violation)
		}
		return
	}
	// One shrink attempt costs seconds (2..5 process starts) and rapid checks its shrink
	// deadline only between strategy steps, so the time spent minimising is bounded here:
	// once the budget is used up candidates are no longer executed (they count as passing)
	// and the smallest failing history found so far fails again from memory.
	var (
		firstFail time.Time
		failKey   string
		failMsg   string
		failUsed  histCase
	)
	budget := time.Duration(r.Pick(40, 120)) * time.Second
	r.Rapid(t, "TestHistories", r.Pick(14, 180), func(rt *rapid.T) {
		c := genCase(rt)
		key := vlib.JSON(c)
		if !firstFail.IsZero() && time.Since(firstFail) > budget {
			if key == failKey {
				r.Fail(rt, "TestHistories", failUsed, "%s", failMsg)
			}
			return
		}
		v := checkHistory(c)
		if v.Infra != "" {
			rt.Fatalf("infra: %s", v.Infra)
		}
		account(r, fmt.Sprintf("history/len=%d", len(c.Runs)), c, v)
		if v.Violation != "" {
			if firstFail.IsZero() {
				firstFail = time.Now()
			}
			failKey, failMsg, failUsed = key, v.Violation, v.Used
			r.Fail(rt, "TestHistories", v.Used, "%s", v.Violation)
		}
	})
}

var cycle = []runT{
	{SSH: "ssh-simulator"},
	{FTP: true},
	{SMTP: true},
	{LDAP: true},
	{Agent: true},
	{SSH: "ssh-auth", Agent: true},
	{FTP: true, LDAP: true},
}

// TestTokenFileStates: every on-disk state of the token file a kill during its first write
// can leave - absent, empty, each proper prefix of a valid token - plus the complete token,
// each followed by two starts (three in the thorough tier).
func TestTokenFileStates(t *testing.T) {
	r := vlib.Open(prop)
	r.Rule(ruleText)
	var c histCase
	if vlib.ReplayCase("TestTokenFileStates", &c) {
		v := checkHistory(c)
		if v.Infra != "" {
			t.Fatalf("infra: %s", v.Infra)
		}
		if v.Violation != "" {
			r.Violation(t, "TestTokenFileStates", v.Used, v.Violation)
		}
		return
	}
	if vlib.Replaying() {
		return
	}
	shard, shards := r.Shard()
	failed := 0
	var cases []histCase
	cases = append(cases, histCase{TokenFile: "absent"}, histCase{TokenFile: "absent", DirExists: true})
	for n := 0; n <= 20; n++ {
		cases = append(cases, histCase{TokenFile: "content", Token: sampleToken[:n], DirExists: true})
	}
	for i, c := range cases {
		if i%shards != shard {
			continue
		}
		a, b := cycle[i%len(cycle)], cycle[(i+1)%len(cycle)]
		a.Kill, b.Kill = -1, -1
		c.Runs = []runT{a, a}
		if r.Thorough() {
			c.Runs = []runT{a, b, a}
		}
		v := checkHistory(c)
		if v.Infra != "" {
			t.Fatalf("infra: %s", v.Infra)
		}
		nt := int64(0)
		if c.nontrivial() {
			nt = 1
		}
		r.Bulk("token-file-state/"+c.tokenLabel(), 1, nt)
		r.Sample("token-file-state/"+c.tokenLabel(), v.Used)
		for _, f := range v.Flaky {
			r.Flaky(f)
		}
		for _, n := range v.Notes {
			r.Note("%s", n)
		}
		for _, l := range v.Labels {
			r.Label(l, 1)
		}
		if v.Violation != "" {
			r.Violation(t, "TestTokenFileStates", v.Used, v.Violation)
			if failed++; failed >= maxReports {
				t.Logf("stopping after %d violations", failed)
				return
			}
		}
	}
	r.Exhaustive("token file states before the first start: absent (with and without data directory), empty, every proper prefix (1..19 characters) of a valid token, the complete token")
}

// TestKillSweep: a first start with all services is killed at every step of the delay grid,
// then restarted twice.
func TestKillSweep(t *testing.T) {
	r := vlib.Open(prop)
	r.Rule(ruleText)
	var c histCase
	if vlib.ReplayCase("TestKillSweep", &c) {
		v := checkHistory(c)
		if v.Infra != "" {
			t.Fatalf("infra: %s", v.Infra)
		}
		if v.Violation != "" {
			r.Violation(t, "TestKillSweep", v.Used, v.Violation)
		}
		return
	}
	if vlib.Replaying() {
		return
	}
	shard, shards := r.Shard()
	failed := 0
	stride := r.Pick(2, 1)
	idx := 0
	for k := 0; k <= killSteps; k += stride {
		idx++
		if idx%shards != shard {
			continue
		}
		sshType := "ssh-simulator"
		if idx%2 == 1 {
			sshType = "ssh-auth"
		}
		all := runT{SSH: sshType, FTP: true, SMTP: true, LDAP: true, Agent: true, Kill: -1}
		killed := all
		killed.Kill = k
		c := histCase{TokenFile: "absent", Runs: []runT{killed, all, all}}
		v := checkHistory(c)
		if v.Infra != "" {
			t.Fatalf("infra: %s", v.Infra)
		}
		account(r, "kill-sweep", c, v)
		if v.Violation != "" {
			r.Violation(t, "TestKillSweep", v.Used, v.Violation)
			if failed++; failed >= maxReports {
				t.Logf("stopping after %d violations", failed)
				return
			}
		}
	}
}

// TestKillStates: a first start with all services is killed as soon as n = 1..7 identity
// records have reached the store (in particular between a service's key and its
// certificate), then restarted twice. The order in which services are constructed is the
// server's (map order), so repetitions see different record sets for the same n.
func TestKillStates(t *testing.T) {
	r := vlib.Open(prop)
	r.Rule(ruleText)
	var c histCase
	if vlib.ReplayCase("TestKillStates", &c) {
		v := checkHistory(c)
		if v.Infra != "" {
			t.Fatalf("infra: %s", v.Infra)
		}
		if v.Violation != "" {
			r.Violation(t, "TestKillStates", v.Used, v.Violation)
		}
		return
	}
	if vlib.Replaying() {
		return
	}
	shard, shards := r.Shard()
	failed := 0
	idx := 0
	for rep := 0; rep < r.Pick(1, 6); rep++ {
		for n := 1; n <= 7; n++ {
			idx++
			if idx%shards != shard {
				continue
			}
			sshType := "ssh-simulator"
			if idx%2 == 1 {
				sshType = "ssh-auth"
			}
			all := runT{SSH: sshType, FTP: true, SMTP: true, LDAP: true, Agent: true, Kill: -1}
			killed := all
			killed.KillRec = n
			c := histCase{TokenFile: "absent", Runs: []runT{killed, all, all}}
			v := checkHistory(c)
			if v.Infra != "" {
				t.Fatalf("infra: %s", v.Infra)
			}
			account(r, "kill-at-records", c, v)
			if v.Violation != "" {
				r.Violation(t, "TestKillStates", v.Used, v.Violation)
				if failed++; failed >= maxReports {
					t.Logf("stopping after %d violations", failed)
					return
				}
			}
		}
	}
}
