package c10

import (
	"fmt"
	"net"
	"strings"
	"testing"
	"time"

	"pgregory.net/rapid"

	"verif/lab"
	"verif/svc"
	"verif/vlib"
)

const prop = "C10"

func TestMain(m *testing.M) { vlib.Main(m, prop) }

const burstLimit = 4 // the limiter's burst: responses per source IP within the interval

type dgram struct {
	Src  int    `json:"src"`  // index of the source IP
	Port int    `json:"port"` // source port
	Data string `json:"data_hex"`
	Kind string `json:"kind"`
}

type ampCase struct {
	Service string  `json:"service"`
	Sources int     `json:"sources"`
	Dgrams  []dgram `json:"datagrams"` // in sending order
	// Family of the source addresses: "" = IPv4 (16-byte form), "v4short" = IPv4 in 4-byte
	// form, "v6" = all sources IPv6 (global addresses that differ in the last byte only),
	// "v6wide" = IPv6 addresses that differ in the first half only, "mixed" = source 0 IPv4,
	// the others IPv6. (Seed C10-r5-1: a limiter keyed by To4() gives all IPv6 sources one
	// shared allowance.)
	Family string `json:"family,omitempty"`
}

func (c ampCase) ip(i int) net.IP {
	v6 := net.IP{0x20, 0x01, 0x0d, 0xb8, 0, 7, 0, 0, 0, 0, 0, 0, 0, 0, 0, byte(10 + i)}
	switch c.Family {
	case "v4short":
		return srcIP(i).To4()
	case "v6":
		return v6
	case "v6wide":
		return net.IP{0x20, 0x01, 0x0d, 0xb8, byte(10 + i), 7, 0, 0, 0, 0, 0, 0, 0, 0, 0, 1}
	case "mixed":
		if i > 0 {
			return v6
		}
	}
	return srcIP(i)
}

func srcIP(i int) net.IP { return net.IPv4(198, 51, 100, byte(10+i)) }

// send runs the selected sources' datagrams (in case order) on a fresh instance and
// returns, per datagram index, the replies; collect can be called again later.
func send(c ampCase, only int) (func() [][]string, func(), error) {
	in, err := svc.StartInstance([]string{c.Service})
	if err != nil {
		return nil, nil, fmt.Errorf("infra: %v", err)
	}
	p := svc.PortOf(c.Service)
	ds := make([]*lab.Datagram, len(c.Dgrams))
	sent := 0
	for i, d := range c.Dgrams {
		if only >= 0 && d.Src != only {
			continue
		}
		ds[i] = in.Srv.L.SendUDP(&net.UDPAddr{IP: svc.ServerIP, Port: p.Port}, &net.UDPAddr{IP: c.ip(d.Src), Port: d.Port}, vlib.UnHex(d.Data))
		sent++
		if sent%16 == 0 {
			time.Sleep(200 * time.Microsecond) // let the dispatcher drain its accept channel
		}
	}
	collect := func() [][]string {
		out := make([][]string, len(c.Dgrams))
		for i, d := range ds {
			if d == nil {
				continue
			}
			for _, r := range d.Snapshot() {
				out[i] = append(out[i], vlib.Hex(r))
			}
		}
		return out
	}
	// quiescence: datagram handlers have no completion signal; wait until the reply count is stable
	last, stable := -1, 0
	for k := 0; k < 400 && stable < 12; k++ {
		time.Sleep(5 * time.Millisecond)
		n := 0
		for _, r := range collect() {
			n += len(r)
		}
		if n == last {
			stable++
		} else {
			last, stable = n, 0
		}
	}
	return collect, in.Srv.Stop, nil
}

func checkAmp(c ampCase) error {
	collectAll, stopAll, err := send(c, -1)
	if stopAll != nil {
		defer stopAll()
	}
	if err != nil {
		return err
	}
	// differential reference: every source alone on a fresh instance
	alone := make([]func() [][]string, c.Sources)
	if c.Sources > 1 {
		for s := 0; s < c.Sources; s++ {
			col, stop, err := send(c, s)
			if stop != nil {
				defer stop()
			}
			if err != nil {
				return err
			}
			alone[s] = col
		}
	}
	var last error
	for attempt := 0; attempt < 5; attempt++ {
		if attempt > 0 {
			time.Sleep(time.Duration(attempt) * 120 * time.Millisecond)
		}
		last = nil
		all := collectAll()
		perIP := make([]int, c.Sources)
		for i, d := range c.Dgrams {
			perIP[d.Src] += len(all[i])
		}
		for s, n := range perIP {
			if n > burstLimit {
				// an upper bound can only be exceeded further by waiting: report at once
				return fmt.Errorf("source %s received %d response datagrams from %s within one run (limit %d)", c.ip(s), n, c.Service, burstLimit)
			}
		}
		if c.Sources > 1 {
			for s := 0; s < c.Sources && last == nil; s++ {
				// which of a source's requests are answered once it exceeds its allowance
				// depends on the scheduling of the per-datagram handlers; a source that
				// stays within its allowance must be served exactly as if it were alone
				if consultations(c, s) > burstLimit {
					continue
				}
				a := alone[s]()
				for i, d := range c.Dgrams {
					if d.Src != s {
						continue
					}
					// the number of replies is what the allowance governs; their content may
					// depend on the order in which the source's own concurrent datagrams are
					// handled (tftp DATA before/after its WRQ)
					if len(a[i]) != len(all[i]) {
						last = fmt.Errorf("source %s: replies to its datagram %d (%s) differ when other sources send too: alone %v, interleaved %v (another source used up its allowance?)", c.ip(s), i, d.Kind, clip(a[i]), clip(all[i]))
						break
					}
				}
			}
		}
		if last == nil {
			return nil
		}
	}
	return last
}

// consultations: upper bound on how often the limiter is asked for this source (one per
// datagram; one per command line for memcached)
func consultations(c ampCase, s int) int {
	n := 0
	for _, d := range c.Dgrams {
		if d.Src != s {
			continue
		}
		if c.Service == "memcached" {
			n += strings.Count(string(vlib.UnHex(d.Data)), "\n")
		} else {
			n++
		}
	}
	return n
}

func clip(xs []string) []string {
	out := make([]string, len(xs))
	for i, x := range xs {
		if len(x) > 24 {
			x = x[:24] + "..."
		}
		out[i] = x
	}
	return out
}

func genDatagram(t *rapid.T, service string) ([]byte, string, int) {
	// returns wire, kind, number of replies it would elicit without a limiter
	switch service {
	case "tftp":
		switch rapid.SampledFrom([]string{"rrq", "rrq", "wrq", "data", "junk"}).Draw(t, "kind") {
		case "rrq":
			return append([]byte{0, 1}, []byte(rapid.SampledFrom([]string{"boot", "/etc/passwd", "a"}).Draw(t, "f")+"\x00octet\x00")...), "rrq", 1
		case "wrq":
			return append([]byte{0, 2}, []byte("up.bin\x00octet\x00")...), "wrq", 1
		case "data":
			return append([]byte{0, 3, 0, 1}, make([]byte, rapid.SampledFrom([]int{0, 10, 512}).Draw(t, "n"))...), "data", 1
		default:
			return []byte{0, 9, 1, 2, 3}, "junk", 0
		}
	case "memcached":
		n := rapid.SampledFrom([]int{1, 1, 2, 3, 6, 10}).Draw(t, "lines")
		w := []byte{0, 1, 0, 0, 0, 1, 0, 0}
		for i := 0; i < n; i++ {
			w = append(w, []byte(rapid.SampledFrom([]string{"stats", "get a", "flush_all", "version", "stats slabs"}).Draw(t, "line")+"\r\n")...)
		}
		return w, fmt.Sprintf("mc x%d", n), n
	case "snmp":
		comm := rapid.SampledFrom([]string{"public", "private"}).Draw(t, "community")
		tag := rapid.SampledFrom([]byte{0xa0, 0xa1, 0xa3}).Draw(t, "pdu")
		return svc.SNMPGet(comm, tag, rapid.IntRange(1, 9999).Draw(t, "rid"), [][]int{{1, 3, 6, 1, 2, 1, 1, 1, 0}}), "snmp", 1
	default:
		q := rapid.SampledFrom([]byte{0x54, 0x55, 0x56, 0x57, 0x69, 0x00}).Draw(t, "q")
		return append([]byte{0xff, 0xff, 0xff, 0xff, q}, []byte("Source Engine Query\x00")...), fmt.Sprintf("a2s %02x", q), 1
	}
}

func TestAmplification(t *testing.T) {
	r := vlib.Open(prop)
	var ac ampCase
	if vlib.ReplayCase("TestAmplification", &ac) {
		if err := checkAmp(ac); err != nil {
			r.Violation(t, "TestAmplification", ac, err.Error())
		}
		return
	}
	r.Rule("for tftp, memcached, snmp, counterstrike: bursts of 1..200 grammar-generated datagrams (memcached incl. multi-command datagrams) from 1..3 source IPs (IPv4 in 16- and 4-byte form, IPv6 addresses differing in the last byte or in the first half only, IPv4 next to IPv6) over varying source ports, interleaved in a drawn order, through the real server's dispatcher on a fresh instance; oracle = at most 4 response datagrams per source IP per run, and a source that stays within its allowance gets exactly the replies it gets alone on a fresh instance, however greedy the other sources are; non-trivial = some source sends > 4 reply-eliciting requests")
	r.Rapid(t, "TestAmplification", r.Pick(120, 2500), func(rt *rapid.T) {
		c := ampCase{Service: rapid.SampledFrom([]string{"tftp", "memcached", "snmp", "counterstrike"}).Draw(rt, "service")}
		c.Sources = rapid.IntRange(1, 3).Draw(rt, "sources")
		c.Family = rapid.SampledFrom([]string{"", "", "v4short", "v6", "v6", "v6wide", "mixed"}).Draw(rt, "family")
		r.Label("amp/family="+c.Family, 1)
		eliciting := make([]int, c.Sources)
		total := 0
		var per [][]dgram
		for s := 0; s < c.Sources; s++ {
			n := rapid.OneOf(rapid.IntRange(1, 8), rapid.IntRange(5, 40), rapid.IntRange(1, 200)).Draw(rt, "burst")
			if s == 0 && c.Sources > 1 && rapid.Bool().Draw(rt, "modest") {
				n = rapid.IntRange(1, 4).Draw(rt, "modestburst") // a source that stays within its allowance next to greedy ones
			}
			basePort := rapid.IntRange(1024, 60000).Draw(rt, "baseport")
			samePort := rapid.Bool().Draw(rt, "sameport")
			var list []dgram
			for i := 0; i < n; i++ {
				w, kind, el := genDatagram(rt, c.Service)
				port := basePort
				if !samePort {
					port = basePort + i
				}
				list = append(list, dgram{Src: s, Port: port, Data: vlib.Hex(w), Kind: kind})
				eliciting[s] += el
			}
			per = append(per, list)
			total += n
		}
		// interleave
		idx := make([]int, c.Sources)
		for len(c.Dgrams) < total {
			s := rapid.IntRange(0, c.Sources-1).Draw(rt, "pick")
			if idx[s] < len(per[s]) {
				c.Dgrams = append(c.Dgrams, per[s][idx[s]])
				idx[s]++
			}
		}
		nt := false
		for _, e := range eliciting {
			if e > burstLimit {
				nt = true
			}
		}
		if c.Sources > 1 && consultations(c, 0) <= burstLimit {
			r.Label("amp/modest-source-next-to-others", 1)
		}
		fp := ""
		if nt {
			fp = vlib.JSON(c)
		}
		r.Case(fmt.Sprintf("amp/%s/sources=%d", c.Service, c.Sources), fp, func() interface{} {
			return map[string]interface{}{"service": c.Service, "sources": c.Sources, "datagrams": total, "eliciting_per_source": eliciting}
		})
		if err := checkAmp(c); err != nil {
			if strings.HasPrefix(err.Error(), "infra:") {
				rt.Fatalf("%v", err)
			}
			r.Fail(rt, "TestAmplification", c, "%v", err)
		}
	})
}
