#!/bin/bash
cd /verif
m() { echo "== $1 :: $2"; shift; ./mutcheck.sh "$@"; }
m "C05 merge-inverted" C05 event/event.go 'if !m.Has(name) {' 'if m.Has(name) {'
m "C05 udp-dest-port-key" C05 event/event.go '			m.Store("destination-ip", ua.IP.String())
			m.Store("destination-port", ua.Port)' '			m.Store("destination-ip", ua.IP.String())
			m.Store("source-port", ua.Port)'
m "C06 all-of" C06 pushers/filters.go '			if rx.MatchString(val) {
				return true
			}
		}
		return false' '			if !rx.MatchString(val) {
				return false
			}
		}
		return true'
m "C06 services-filter-dropped-when-categories" C06 server/honeytrap.go 'if len(x.Services) != 0 {' 'if len(x.Services) != 0 && len(x.Categories) == 0 {'
m "C06 first-subscriber-only" C06 pushers/eventbus/eventbus.go '		subscriber.Send(e)' '		subscriber.Send(e)
		break'
m "C08 accepted-detector-gets-raw-conn" C08 server/honeytrap.go '			// Service supports payload
			return service, pConn, nil' '			// Service supports payload
			return service, conn, nil'
m "C08 tcp-compare-ignores-ip" C08 server/honeytrap.go '		if ta1.IP == nil {
		} else if ta2.IP == nil {
		} else if !ta1.IP.Equal(ta2.IP) {
			return false
		}' '		if ta1.IP == nil {
		} else if ta2.IP == nil {
		}'
m "C19 later-duplicate-wins" C19 server/honeytrap.go '			if found {
				log.Error("Port %s was already defined' '			if false {
				log.Error("Port %s was already defined'
m "C19 port-before-ports" C19 server/honeytrap.go 'ports = append(ports, x.Port)' 'ports = append([]string{x.Port}, ports...)'
m "C07 boundary-off-by-one" C07 pushers/file/rotatefile.go "j = bytes.LastIndexByte(p[:fit], '\\n')" "j = bytes.LastIndexByte(p[:fit+1], '\\n')"
m "C07 rotated-name-not-unique" C07 pushers/file/rotatefile.go '		if _, err := os.Stat(target); os.IsNotExist(err) {
			break
		}' '		break'
m "C12 ssh-user-only" C12 services/ssh/ssh-simulator.go 'if cm.User() == parts[0] && string(password) == parts[1] {' 'if cm.User() == parts[0] {'
m "C12 ldap-gate-open" C12 services/ldap/catchall.go '	if !c.isLogin() {' '	if false {'
m "C03 ftp-shared-cwd" C03 services/ftp/ftp.go '		fs := *s.fs
		driver = NewFileDriver(&fs)' '		driver = NewFileDriver(s.fs)'
m "C03 telnet-shared-session-id" C03 services/telnet/telnet.go 'func (s *telnetService) Handle(ctx context.Context, conn net.Conn) error {
	id := xid.New()' 'var sharedID = xid.New()

func (s *telnetService) Handle(ctx context.Context, conn net.Conn) error {
	id := sharedID'
m "C04 redis-scanner-per-command" C04 services/redis/redis.go '	scanner := bufio.NewScanner(conn)

	for {
		datum, err := parseRedisData(scanner)' '	for {
		scanner := bufio.NewScanner(conn)
		datum, err := parseRedisData(scanner)'
m "C04 memcached-terminator-left" C04 services/memcached.go 'b.Discard(count - n + 2)' 'b.Discard(count - n)'
m "C17 seek-unchecked" C17 services/decoder/decoder.go '	if err := d.HasBytes(pos); err == nil {' '	if err := d.HasBytes(pos); err == nil || true {'
m "C17 ipp-str-rewind" C17 services/ipp/values.go '			dec.Seek(-2) //Rewind name length
			break
		}
	}
	dec.Seek(-1) //Rewind tag

	return dec.LastError()
}

func (v *valBool) encode' '			dec.Seek(-1) //Rewind name length
			break
		}
	}
	dec.Seek(-1) //Rewind tag

	return dec.LastError()
}

func (v *valBool) encode'
m "C09 passive-listener-not-closed" C09 services/ftp/socket.go '	if socket.listener != nil {
		socket.listener.Close()
	}' ''
m "C09 smtp-pump-leak" C09 services/smtp/smtp.go '	c.serve()
	close(done)' '	c.serve()'
