package c05

import (
	"bytes"
	"unicode/utf8"
	"encoding/hex"
	"encoding/json"
	"errors"
	"fmt"
	"net"
	"net/http"
	"os"
	"path/filepath"
	"sort"
	"strings"
	"testing"
	"time"

	"github.com/honeytrap/honeytrap/event"
	"github.com/honeytrap/honeytrap/pushers"
	filech "github.com/honeytrap/honeytrap/pushers/file"
	"pgregory.net/rapid"

	"verif/vlib"
)

const prop = "C05"

func TestMain(m *testing.M) { vlib.Main(m, prop) }

// ---------------------------------------------------------------- payload fidelity

type payloadCase struct {
	Hex string `json:"payload_hex"`
}

func nonPrintable(b []byte) bool {
	for _, c := range b {
		if c < 0x20 || c > 0x7e {
			return true
		}
	}
	return false
}

// decodeJSONNumber-aware generic parse
func parseJSON(data []byte) (map[string]interface{}, error) {
	dec := json.NewDecoder(bytes.NewReader(data))
	dec.UseNumber()
	var m map[string]interface{}
	if err := dec.Decode(&m); err != nil {
		return nil, err
	}
	return m, nil
}

func keysOf(e event.Event) []string {
	var ks []string
	e.Range(func(k, v interface{}) bool {
		if s, ok := k.(string); ok {
			ks = append(ks, s)
		}
		return true
	})
	sort.Strings(ks)
	return ks
}

// serialises checks both serialisation paths the channels use: json.Marshal(event)
// (MarshalJSON) and the snapshot-map + json.Encoder path of the file / kafka channels.
func serialises(e event.Event) (map[string]interface{}, error) {
	d1, err := json.Marshal(e)
	if err != nil {
		return nil, fmt.Errorf("json.Marshal(event): %v", err)
	}
	m1, err := parseJSON(d1)
	if err != nil {
		return nil, fmt.Errorf("MarshalJSON output does not parse: %v", err)
	}
	snap := event.ToMap(e)
	var buf bytes.Buffer
	if err := json.NewEncoder(&buf).Encode(snap); err != nil {
		return nil, fmt.Errorf("channel snapshot encode: %v", err)
	}
	if bytes.Count(buf.Bytes(), []byte("\n")) != 1 {
		return nil, fmt.Errorf("channel encoding is not one line")
	}
	m2, err := parseJSON(buf.Bytes())
	if err != nil {
		return nil, fmt.Errorf("channel encoding does not parse: %v", err)
	}
	for _, k := range keysOf(e) {
		if _, ok := m1[k]; !ok {
			return nil, fmt.Errorf("key %q stored in the event is missing from MarshalJSON output", k)
		}
		if _, ok := m2[k]; !ok {
			return nil, fmt.Errorf("key %q stored in the event is missing from channel JSON", k)
		}
	}
	return m2, nil
}

func loadInt(e event.Event, key string) (int64, bool) {
	var out int64
	found := false
	e.Range(func(k, v interface{}) bool {
		if k == key {
			switch x := v.(type) {
			case int:
				out, found = int64(x), true
			case int64:
				out, found = x, true
			case uint16:
				out, found = int64(x), true
			case uint32:
				out, found = int64(x), true
			case int32:
				out, found = int64(x), true
			case uint:
				out, found = int64(x), true
			}
			return false
		}
		return true
	})
	return out, found
}

func checkPayload(b []byte) error {
	e := event.New(event.Payload(b))
	hx := e.Get("payload-hex")
	dec, err := hex.DecodeString(hx)
	if err != nil {
		return fmt.Errorf("payload-hex %q does not decode: %v", hx, err)
	}
	if !bytes.Equal(dec, b) {
		return fmt.Errorf("payload-hex decodes to %x, sent %x", dec, b)
	}
	n, ok := loadInt(e, "payload-length")
	if !ok || n != int64(len(b)) {
		return fmt.Errorf("payload-length=%d (present=%v), want %d", n, ok, len(b))
	}
	if e.Get("payload") != string(b) {
		return fmt.Errorf("payload string differs from the bytes")
	}
	m, err := serialises(e)
	if err != nil {
		return err
	}
	hs, _ := m["payload-hex"].(string)
	dec2, err := hex.DecodeString(hs)
	if err != nil || !bytes.Equal(dec2, b) {
		return fmt.Errorf("after JSON round trip payload-hex decodes to %x, sent %x", dec2, b)
	}
	if num, ok := m["payload-length"].(json.Number); !ok || num.String() != fmt.Sprint(len(b)) {
		return fmt.Errorf("after JSON round trip payload-length=%v want %d", m["payload-length"], len(b))
	}
	return nil
}

func TestPayloadExhaustive(t *testing.T) {
	r := vlib.Open(prop)
	var pc payloadCase
	if vlib.ReplayCase("TestPayloadExhaustive", &pc) {
		if err := checkPayload(vlib.UnHex(pc.Hex)); err != nil {
			r.Violation(t, "TestPayloadExhaustive", pc, err.Error())
		}
		return
	}
	if vlib.Replaying() {
		return
	}
	if i, _ := r.Shard(); i != 0 {
		return
	}
	r.Rule("payload enumerator: empty, all 256 one-byte and all 65,536 two-byte payloads; non-trivial = contains a byte outside printable ASCII (distinct by construction)")
	var n, nt int64
	check := func(b []byte) bool {
		n++
		if nonPrintable(b) {
			nt++
		}
		if err := checkPayload(b); err != nil {
			r.Violation(t, "TestPayloadExhaustive", payloadCase{hex.EncodeToString(b)}, err.Error())
			return false
		}
		return true
	}
	check(nil)
	check([]byte{})
	for a := 0; a < 256; a++ {
		if !check([]byte{byte(a)}) {
			return
		}
	}
	for a := 0; a < 256; a++ {
		for b := 0; b < 256; b++ {
			if !check([]byte{byte(a), byte(b)}) {
				return
			}
		}
	}
	r.Bulk("payload/exhaustive-0-1-2-bytes", n, nt)
	r.Sample("payload/exhaustive-0-1-2-bytes", map[string]string{"payload_hex": "ff00"})
	r.Exhaustive("all payloads of length 0, 1 and 2")
}

func genPayload() *rapid.Generator[[]byte] {
	return rapid.Custom(func(t *rapid.T) []byte {
		kind := rapid.IntRange(0, 5).Draw(t, "kind")
		switch kind {
		case 0:
			return rapid.SliceOfN(rapid.Byte(), 0, 64).Draw(t, "small")
		case 1:
			n := rapid.IntRange(0, 65536).Draw(t, "n")
			seed := rapid.SliceOfN(rapid.Byte(), 1, 16).Draw(t, "pat")
			b := make([]byte, n)
			for i := range b {
				b[i] = seed[i%len(seed)] + byte(i/len(seed))
			}
			return b
		case 2:
			// invalid UTF-8 sequences, NUL and control characters
			parts := rapid.SliceOfN(rapid.SampledFrom([]string{"\x00", "\xff", "\xc0\x80", "\xed\xa0\x80", "\xf4\x90\x80\x80", "\x80", "\xe2\x82", "\r\n", "\x1b[2J", "\"", "\\", " ", "<>&", "\x7f", "é", "𝄞"}), 1, 40).Draw(t, "parts")
			return []byte(strings.Join(parts, ""))
		case 3:
			n := rapid.SampledFrom([]int{1023, 1024, 1025, 4095, 4096, 4097, 65535, 65536}).Draw(t, "boundary")
			c := rapid.Byte().Draw(t, "fill")
			return bytes.Repeat([]byte{c}, n)
		default:
			return rapid.SliceOfN(rapid.Byte(), 0, 4096).Draw(t, "medium")
		}
	})
}

func TestPayloadSampled(t *testing.T) {
	r := vlib.Open(prop)
	var pc payloadCase
	if vlib.ReplayCase("TestPayloadSampled", &pc) {
		if err := checkPayload(vlib.UnHex(pc.Hex)); err != nil {
			r.Violation(t, "TestPayloadSampled", pc, err.Error())
		}
		return
	}
	r.Rule("payload sampler: lengths 0..65536 incl. invalid UTF-8, NUL, control bytes; non-trivial = contains a byte outside printable ASCII; distinct by content hash")
	r.Rapid(t, "TestPayloadSampled", r.Pick(3000, 40000), func(rt *rapid.T) {
		b := genPayload().Draw(rt, "payload")
		fp := ""
		if nonPrintable(b) {
			fp = string(b)
		}
		r.Case(fmt.Sprintf("payload/sampled/len<=%d", bucket(len(b))), fp, func() interface{} {
			return map[string]interface{}{"len": len(b), "head_hex": hex.EncodeToString(b[:min(len(b), 24)])}
		})
		if err := checkPayload(b); err != nil {
			r.Fail(rt, "TestPayloadSampled", payloadCase{hex.EncodeToString(b)}, "%v", err)
		}
	})
}

func bucket(n int) int {
	for _, b := range []int{0, 2, 64, 1024, 4096, 65536} {
		if n <= b {
			return b
		}
	}
	return 1 << 20
}

// ---------------------------------------------------------------- addresses

type customAddr struct{ n, s string }

func (c customAddr) Network() string { return c.n }
func (c customAddr) String() string  { return c.s }

type addrCase struct {
	Kind string `json:"kind"`
	IP   string `json:"ip"`
	Zone string `json:"zone"`
	Port int    `json:"port"`
	Src  bool   `json:"source"`
}

func (c addrCase) addr() net.Addr {
	var ip net.IP
	if c.IP != "" {
		ip = net.ParseIP(c.IP)
	}
	switch c.Kind {
	case "tcp":
		return &net.TCPAddr{IP: ip, Port: c.Port, Zone: c.Zone}
	case "udp":
		return &net.UDPAddr{IP: ip, Port: c.Port, Zone: c.Zone}
	case "ip":
		return &net.IPAddr{IP: ip, Zone: c.Zone}
	case "unix":
		return &net.UnixAddr{Name: "/tmp/x.sock", Net: "unix"}
	default:
		return customAddr{"custom", c.IP + ":" + fmt.Sprint(c.Port)}
	}
}

func checkAddr(c addrCase) error {
	a := c.addr()
	var e event.Event
	pfx := "destination"
	if c.Src {
		e = event.New(event.SourceAddr(a))
		pfx = "source"
	} else {
		e = event.New(event.DestinationAddr(a))
	}
	switch c.Kind {
	case "tcp", "udp":
		var ip net.IP
		if c.IP != "" {
			ip = net.ParseIP(c.IP)
		}
		if got := e.Get(pfx + "-ip"); got != ip.String() {
			return fmt.Errorf("%s-ip=%q want %q", pfx, got, ip.String())
		}
		p, ok := loadInt(e, pfx+"-port")
		if !ok || p != int64(c.Port) {
			return fmt.Errorf("%s-port=%d (present=%v) want %d", pfx, p, ok, c.Port)
		}
		other := "source"
		if c.Src {
			other = "destination"
		}
		if e.Has(other+"-ip") || e.Has(other+"-port") {
			return fmt.Errorf("%s-* keys set by the %s option", other, pfx)
		}
		m, err := serialises(e)
		if err != nil {
			return err
		}
		if num, ok := m[pfx+"-port"].(json.Number); !ok || num.String() != fmt.Sprint(c.Port) {
			return fmt.Errorf("JSON %s-port=%v want number %d", pfx, m[pfx+"-port"], c.Port)
		}
		if s, _ := m[pfx+"-ip"].(string); s != ip.String() {
			return fmt.Errorf("JSON %s-ip=%v want %s", pfx, m[pfx+"-ip"], ip)
		}
	default:
		if e.Has(pfx+"-ip") || e.Has(pfx+"-port") {
			return fmt.Errorf("%s-ip/port present for address kind %s", pfx, c.Kind)
		}
		if _, err := serialises(e); err != nil {
			return err
		}
	}
	return nil
}

func TestAddrExhaustivePorts(t *testing.T) {
	r := vlib.Open(prop)
	var ac addrCase
	if vlib.ReplayCase("TestAddrExhaustivePorts", &ac) {
		if err := checkAddr(ac); err != nil {
			r.Violation(t, "TestAddrExhaustivePorts", ac, err.Error())
		}
		return
	}
	if vlib.Replaying() {
		return
	}
	if i, _ := r.Shard(); i != 0 {
		return
	}
	r.Rule("address enumerator: kinds {tcp,udp,ip,unix,custom} x ip forms {v4, v6, v4-mapped, unspecified, nil, zoned link-local} x all ports 0..65535 x source/destination (tcp/udp); distinct by construction, all counted non-trivial")
	ips := []struct{ ip, zone string }{{"192.0.2.7", ""}, {"2001:db8::1", ""}, {"::ffff:10.1.2.3", ""}, {"0.0.0.0", ""}, {"", ""}, {"fe80::1", "eth0"}, {"::", ""}}
	var n int64
	for _, kind := range []string{"tcp", "udp"} {
		for _, src := range []bool{true, false} {
			for pi, ipz := range ips {
				step := 1
				if !r.Thorough() && pi > 0 {
					step = 257 // quick: all ports for the first ip form, a stride for the others
				}
				for p := 0; p < 65536; p += step {
					c := addrCase{Kind: kind, IP: ipz.ip, Zone: ipz.zone, Port: p, Src: src}
					n++
					if err := checkAddr(c); err != nil {
						r.Violation(t, "TestAddrExhaustivePorts", c, err.Error())
						return
					}
				}
			}
		}
	}
	for _, kind := range []string{"ip", "unix", "custom"} {
		for _, src := range []bool{true, false} {
			c := addrCase{Kind: kind, IP: "192.0.2.9", Port: 99, Src: src}
			n++
			if err := checkAddr(c); err != nil {
				r.Violation(t, "TestAddrExhaustivePorts", c, err.Error())
				return
			}
		}
	}
	r.Bulk("addr/enumerated", n, n)
	r.Sample("addr/enumerated", addrCase{Kind: "udp", IP: "fe80::1", Zone: "eth0", Port: 65535, Src: true})
	r.Exhaustive("all 65,536 ports for tcp and udp, source and destination")
}

// ---------------------------------------------------------------- constructors, Merge/Copy vs a map model

type opStep struct {
	Op   string                 `json:"op"`
	Arg  string                 `json:"arg,omitempty"`
	Map  map[string]interface{} `json:"map,omitempty"`
	Port int                    `json:"port,omitempty"`
}

type opsCase struct {
	Steps []opStep `json:"steps"`
}

var simpleOps = []string{"Token", "Category", "Type", "Sensor", "Service", "Protocol", "RemoteAddr", "HostAddr", "Message", "SourceIP", "DestinationIP", "SourcePort", "DestinationPort", "SourceAddrTCP", "DestinationAddrUDP", "Payload", "Error", "Stack", "SourceHW", "DestinationHW", "RemoteAddrFrom", "HostAddrFrom", "Custom"}

func applyStep(s opStep, model map[string]interface{}) event.Option {
	switch s.Op {
	case "Token":
		model["token"] = s.Arg
		return event.Token(s.Arg)
	case "Category":
		model["category"] = s.Arg
		return event.Category(s.Arg)
	case "Type":
		model["type"] = s.Arg
		return event.Type(s.Arg)
	case "Sensor":
		model["sensor"] = s.Arg
		return event.Sensor(s.Arg)
	case "Service":
		model["service"] = s.Arg
		return event.Service(s.Arg)
	case "Protocol":
		model["protocol"] = s.Arg
		return event.Protocol(s.Arg)
	case "RemoteAddr":
		model["remote-addr"] = s.Arg
		return event.RemoteAddr(s.Arg)
	case "HostAddr":
		model["host-addr"] = s.Arg
		return event.HostAddr(s.Arg)
	case "Message":
		model["message"] = s.Arg
		return event.Message("%s", s.Arg)
	case "SourceIP":
		ip := net.IPv4(10, 0, 0, byte(s.Port))
		model["source-ip"] = ip.String()
		return event.SourceIP(ip)
	case "DestinationIP":
		ip := net.IPv4(10, 0, 1, byte(s.Port))
		model["destination-ip"] = ip.String()
		return event.DestinationIP(ip)
	case "SourcePort":
		model["source-port"] = fmt.Sprint(uint16(s.Port))
		return event.SourcePort(uint16(s.Port))
	case "DestinationPort":
		model["destination-port"] = fmt.Sprint(uint16(s.Port))
		return event.DestinationPort(uint16(s.Port))
	case "SourceAddrTCP":
		a := &net.TCPAddr{IP: net.IPv4(172, 16, 0, byte(s.Port)), Port: s.Port}
		model["source-ip"] = a.IP.String()
		model["source-port"] = fmt.Sprint(s.Port)
		return event.SourceAddr(a)
	case "DestinationAddrUDP":
		a := &net.UDPAddr{IP: net.ParseIP("2001:db8::2"), Port: s.Port}
		model["destination-ip"] = a.IP.String()
		model["destination-port"] = fmt.Sprint(s.Port)
		return event.DestinationAddr(a)
	case "Payload":
		b := []byte(s.Arg)
		model["payload"] = string(b)
		model["payload-hex"] = hex.EncodeToString(b)
		model["payload-length"] = fmt.Sprint(len(b))
		return event.Payload(b)
	case "Error":
		model["error"] = "<error>"
		return event.Error(errors.New(s.Arg))
	case "Stack":
		model["stacktrace"] = "<stack>"
		return event.Stack()
	case "SourceHW":
		hw := net.HardwareAddr{2, 0, 0, 0, 0, byte(s.Port)}
		model["source-mac"] = hw.String()
		return event.SourceHardwareAddr(hw)
	case "DestinationHW":
		hw := net.HardwareAddr{2, 0, 0, 0, 1, byte(s.Port)}
		model["destination-mac"] = hw.String()
		return event.DestinationHardwareAddr(hw)
	case "RemoteAddrFrom":
		a := &net.TCPAddr{IP: net.IPv4(172, 16, 9, 1), Port: s.Port}
		model["remote-addr"] = a.String()
		return event.RemoteAddrFrom(a)
	case "HostAddrFrom":
		a := &net.UDPAddr{IP: net.IPv4(172, 16, 9, 2), Port: s.Port}
		model["host-addr"] = a.String()
		return event.HostAddrFrom(a)
	case "Custom":
		// key names: any valid UTF-8 (JSON object keys can carry control characters and
		// non-ASCII text; only invalid UTF-8 cannot survive JSON and no caller produces it);
		// the value is arbitrary bytes
		k := "x." + s.Arg
		if !utf8.ValidString(k) {
			k = "x." + hex.EncodeToString([]byte(s.Arg))
		}
		model[k] = s.Arg
		return event.Custom(k, s.Arg)
	case "MergeFrom":
		for k, v := range s.Map {
			if _, ok := model[k]; !ok {
				model[k] = fmt.Sprint(v)
			}
		}
		return event.MergeFrom(s.Map)
	case "CopyFrom":
		for k, v := range s.Map {
			model[k] = fmt.Sprint(v)
		}
		return event.CopyFrom(s.Map)
	case "IfAbsent":
		// a caller-written option that looks at the event it is applied to (Has-guarded store)
		k, v := s.Arg, s.Port
		if _, ok := model[k]; !ok {
			model[k] = fmt.Sprint(v)
		}
		return func(e event.Event) {
			if !e.Has(k) {
				e.Store(k, v)
			}
		}
	}
	panic("unknown op " + s.Op)
}

func checkOps(c opsCase, viaNewWith bool) error {
	// event.New stores the creation time under "date" before applying the options
	model := map[string]interface{}{"date": "<date>"}
	var opts []event.Option
	for _, s := range c.Steps {
		opts = append(opts, applyStep(s, model))
	}
	var e event.Event
	if viaNewWith {
		e = event.New(event.NewWith(opts...))
	} else {
		e = event.New(opts[:len(opts)/2]...)
		e = event.Apply(e, opts[len(opts)/2:]...)
	}
	if err := compareModel(e, model); err != nil {
		return err
	}
	if _, err := serialises(e); err != nil {
		return err
	}
	// an event is serialised by one channel and decorated (token, geo data, further
	// payloads) before the next one serialises it again: the second serialisation must
	// show the later stores
	late := []byte{0xde, 0xad, byte(len(c.Steps))}
	event.Apply(e, event.Token("late-token"), event.Custom("late.key", len(c.Steps)), event.Payload(late))
	m2, err := serialises(e)
	if err != nil {
		return fmt.Errorf("after storing more keys: %v", err)
	}
	if s, _ := m2["token"].(string); s != "late-token" {
		return fmt.Errorf("second serialisation after Store(token) shows token=%v", m2["token"])
	}
	if s, _ := m2["payload-hex"].(string); s != hex.EncodeToString(late) {
		return fmt.Errorf("second serialisation after a new Payload shows payload-hex=%v, want %x", m2["payload-hex"], late)
	}
	if fmt.Sprint(m2["payload-length"]) != "3" || fmt.Sprint(m2["late.key"]) != fmt.Sprint(len(c.Steps)) {
		return fmt.Errorf("second serialisation is stale: payload-length=%v late.key=%v", m2["payload-length"], m2["late.key"])
	}
	return nil
}

func hasKey(m map[string]interface{}, k string) bool { _, ok := m[k]; return ok }

var mapKeys = []string{"token", "category", "type", "sensor", "service", "payload", "source-ip", "source-port", "x.a", "x.b", "date", "new.key", "ldap.id"}

func genValue(t *rapid.T, label string) interface{} {
	switch rapid.IntRange(0, 7).Draw(t, label+"kind") {
	case 0:
		return rapid.StringN(0, 12, -1).Draw(t, label+"s")
	case 1:
		return rapid.IntRange(-5, 70000).Draw(t, label+"i")
	case 2:
		return rapid.Bool().Draw(t, label+"b")
	case 3:
		return []string{rapid.StringN(0, 4, -1).Draw(t, label+"ls")}
	case 4:
		return float64(rapid.IntRange(0, 1000).Draw(t, label+"f")) / 8
	case 5:
		return map[string]interface{}{"n": rapid.IntRange(0, 9).Draw(t, label+"m")}
	case 6:
		return uint16(rapid.IntRange(0, 65535).Draw(t, label+"u"))
	default:
		return nil
	}
}

func TestOptionsAgainstModel(t *testing.T) {
	r := vlib.Open(prop)
	var oc opsCase
	if vlib.ReplayCase("TestOptionsAgainstModel", &oc) {
		for _, via := range []bool{false, true} {
			if err := checkOps(oc, via); err != nil {
				r.Violation(t, "TestOptionsAgainstModel", oc, err.Error())
			}
		}
		return
	}
	r.Rule("option sequences: 1..10 constructor options in any order incl. MergeFrom/CopyFrom maps over a key alphabet that collides with constructor keys, checked against a map model (last write wins, Merge keeps, Copy overwrites); non-trivial = a Merge/Copy map has >=1 key already present; distinct by step sequence")
	r.Rapid(t, "TestOptionsAgainstModel", r.Pick(6000, 100000), func(rt *rapid.T) {
		n := rapid.IntRange(1, 10).Draw(rt, "n")
		var c opsCase
		present := map[string]bool{"date": true}
		collide := false
		for i := 0; i < n; i++ {
			var s opStep
			if rapid.IntRange(0, 2).Draw(rt, "ismap") == 0 {
				s.Op = rapid.SampledFrom([]string{"MergeFrom", "CopyFrom"}).Draw(rt, "mop")
				s.Map = map[string]interface{}{}
				for _, k := range rapid.SliceOfNDistinct(rapid.SampledFrom(mapKeys), 0, 5, rapid.ID[string]).Draw(rt, "keys") {
					s.Map[k] = genValue(rt, k)
					if present[k] {
						collide = true
					}
				}
				m := map[string]interface{}{}
				applyStep(s, m)
				for k := range m {
					present[k] = true
				}
			} else {
				s.Op = rapid.SampledFrom(simpleOps).Draw(rt, "op")
				s.Arg = rapid.SampledFrom([]string{"", "a", "b", "ssh", "\x00\xff", "日本", "X-\x00", "h\x01\x7f", "tab\tnl\n", "q\"uote\\", "\u2028"}).Draw(rt, "arg")
				s.Port = rapid.SampledFrom([]int{0, 1, 22, 255, 65535}).Draw(rt, "port")
				m := map[string]interface{}{}
				applyStep(s, m)
				for k := range m {
					present[k] = true
				}
			}
			c.Steps = append(c.Steps, s)
		}
		fp := ""
		if collide {
			fp = vlib.JSON(c)
		}
		r.Case("options/model", fp, func() interface{} { return c })
		via := rapid.Bool().Draw(rt, "viaNewWith")
		if err := checkOps(c, via); err != nil {
			r.Fail(rt, "TestOptionsAgainstModel", c, "%v", err)
		}
	})
}

// all subsets and both orders of a fixed set of constructors (exhaustive)
func TestConstructorSubsets(t *testing.T) {
	r := vlib.Open(prop)
	if vlib.Replaying() {
		return
	}
	if i, _ := r.Shard(); i != 0 {
		return
	}
	base := []opStep{
		{Op: "Category", Arg: "c"}, {Op: "Type", Arg: "t"}, {Op: "Sensor", Arg: "s"}, {Op: "Service", Arg: "v"},
		{Op: "SourceAddrTCP", Port: 4000}, {Op: "DestinationAddrUDP", Port: 53}, {Op: "Payload", Arg: "\x00\xffz"},
		{Op: "SourcePort", Port: 7}, {Op: "SourceIP", Port: 9}, {Op: "Error", Arg: "boom"}, {Op: "Message", Arg: "m"},
		{Op: "CopyFrom", Map: map[string]interface{}{"category": "copied", "k": 1}}, {Op: "MergeFrom", Map: map[string]interface{}{"category": "merged", "sensor": "merged", "k2": true}},
	}
	var n, nt int64
	for mask := 0; mask < 1<<len(base); mask++ {
		var steps []opStep
		for i, s := range base {
			if mask&(1<<i) != 0 {
				steps = append(steps, s)
			}
		}
		rev := make([]opStep, len(steps))
		for i := range steps {
			rev[len(steps)-1-i] = steps[i]
		}
		for _, order := range [][]opStep{steps, rev} {
			if len(order) == 0 {
				continue
			}
			c := opsCase{order}
			n++
			if mask&(3<<11) != 0 {
				nt++
			}
			if err := checkOps(c, mask&1 == 0); err != nil {
				r.Violation(t, "TestOptionsAgainstModel", c, err.Error())
				return
			}
		}
	}
	r.Bulk("options/all-subsets-two-orders", n, nt)
	r.Exhaustive("all subsets of 13 constructor options in forward and reverse order")
}

// ---------------------------------------------------------------- value types services store + file channel round trip

type valueCase struct {
	Kind string `json:"kind"`
	S    string `json:"s"`
	N    int    `json:"n"`
}

func (v valueCase) value() interface{} {
	switch v.Kind {
	case "string":
		return v.S
	case "bytes":
		return []byte(v.S)
	case "strings":
		return []string{v.S, v.S + "x"}
	case "int":
		return v.N
	case "int64":
		return int64(v.N)
	case "uint8":
		return uint8(v.N)
	case "uint16":
		return uint16(v.N)
	case "uint32":
		return uint32(v.N)
	case "bool":
		return v.N%2 == 0
	case "float":
		return float64(v.N) / 3
	case "duration":
		return time.Duration(v.N) * time.Millisecond
	case "time":
		return time.Unix(int64(v.N), 0)
	case "error":
		return errors.New(v.S)
	case "nil":
		return nil
	case "header":
		return http.Header{"X-A": []string{v.S, "b"}, "Cookie": []string{v.S}}
	case "map":
		return map[string]interface{}{"a": v.S, "b": []int{v.N}, "c": map[string]string{"d": v.S}}
	case "ip":
		return net.IPv4(10, 0, 0, byte(v.N))
	case "hw":
		return net.HardwareAddr{0, 1, 2, 3, 4, byte(v.N)}
	case "ints":
		return []int{v.N, -v.N}
	case "ifaces":
		return []interface{}{v.S, v.N, nil, true}
	case "stringer":
		return &net.TCPAddr{IP: net.IPv4(1, 2, 3, 4), Port: v.N & 0xffff}
	}
	return v.S
}

var valueKinds = []string{"string", "bytes", "strings", "int", "int64", "uint8", "uint16", "uint32", "bool", "float", "duration", "time", "error", "nil", "header", "map", "ip", "hw", "ints", "ifaces", "stringer"}

func checkValue(c valueCase) error {
	e := event.New(event.Category("c05"), event.Custom("c05.value", c.value()), event.Custom("c05.kind", c.Kind))
	_, err := serialises(e)
	return err
}

func TestValueTypesSerialise(t *testing.T) {
	r := vlib.Open(prop)
	var vc valueCase
	if vlib.ReplayCase("TestValueTypesSerialise", &vc) {
		if err := checkValue(vc); err != nil {
			r.Violation(t, "TestValueTypesSerialise", vc, err.Error())
		}
		return
	}
	r.Rule("stored value types: every Go type services put into events (string, []byte, []string, ints, bool, float, Duration, Time, error, nil, http.Header, nested maps, net.IP, HardwareAddr, slices, pointers to structs) with generated contents; every such event must serialise with all keys; non-trivial = value is not a plain ASCII string")
	r.Rapid(t, "TestValueTypesSerialise", r.Pick(4000, 60000), func(rt *rapid.T) {
		c := valueCase{
			Kind: rapid.SampledFrom(valueKinds).Draw(rt, "kind"),
			S:    rapid.OneOf(rapid.StringN(0, 40, -1), rapid.Map(rapid.SliceOfN(rapid.Byte(), 0, 40), func(b []byte) string { return string(b) })).Draw(rt, "s"),
			N:    rapid.IntRange(-70000, 70000).Draw(rt, "n"),
		}
		fp := ""
		if c.Kind != "string" || nonPrintable([]byte(c.S)) {
			fp = vlib.JSON(c)
		}
		r.Case("values/"+c.Kind, fp, func() interface{} { return c })
		if err := checkValue(c); err != nil {
			r.Fail(rt, "TestValueTypesSerialise", c, "%v", err)
		}
	})
}

// Events pushed through the real file channel come back as one JSON line each, with
// every key and a byte-exact payload-hex.
type fileCase struct {
	Payloads []string `json:"payloads_hex"`
}

func checkFileChannel(dir string, cases []fileCase) (int, error) {
	type inst struct {
		ch   pushers.Channel
		path string
		c    fileCase
	}
	var insts []inst
	for i, c := range cases {
		p := filepath.Join(dir, fmt.Sprintf("f%d.log", i))
		ch, err := filech.New(func(c pushers.Channel) error {
			fb := c.(*filech.FileBackend)
			fb.File = p
			return nil
		})
		if err != nil {
			return -1, fmt.Errorf("infra: %v", err)
		}
		insts = append(insts, inst{ch, p, c})
	}
	for _, in := range insts {
		for j, hx := range in.c.Payloads {
			b, _ := hex.DecodeString(hx)
			in.ch.Send(event.New(event.Category("c05"), event.Custom("seq", j), event.Payload(b), event.SourceAddr(&net.TCPAddr{IP: net.IPv4(10, 9, 8, 7), Port: 40000 + j})))
		}
	}
	// the channel flushes one second after the last request
	deadline := time.Now().Add(15 * time.Second)
	for idx, in := range insts {
		for {
			data, _ := os.ReadFile(in.path)
			lines := bytes.Split(bytes.TrimSuffix(data, []byte("\n")), []byte("\n"))
			if len(data) == 0 {
				lines = nil
			}
			if len(lines) >= len(in.c.Payloads) || time.Now().After(deadline) {
				if len(lines) != len(in.c.Payloads) {
					return idx, fmt.Errorf("file channel wrote %d lines for %d events", len(lines), len(in.c.Payloads))
				}
				for j, ln := range lines {
					m, err := parseJSON(ln)
					if err != nil {
						return idx, fmt.Errorf("line %d is not JSON: %v", j, err)
					}
					if fmt.Sprint(m["seq"]) != fmt.Sprint(j) {
						return idx, fmt.Errorf("line %d carries seq %v", j, m["seq"])
					}
					if s, _ := m["payload-hex"].(string); s != in.c.Payloads[j] {
						return idx, fmt.Errorf("line %d payload-hex %q want %q", j, s, in.c.Payloads[j])
					}
					for _, k := range []string{"date", "category", "payload", "payload-length", "source-ip", "source-port"} {
						if _, ok := m[k]; !ok {
							return idx, fmt.Errorf("line %d lacks key %q", j, k)
						}
					}
					if fmt.Sprint(m["source-port"]) != fmt.Sprint(40000+j) {
						return idx, fmt.Errorf("line %d source-port %v", j, m["source-port"])
					}
				}
				break
			}
			time.Sleep(50 * time.Millisecond)
		}
		if fb, ok := in.ch.(*filech.FileBackend); ok {
			fb.Close()
		}
	}
	return -1, nil
}

func TestFileChannelRoundTrip(t *testing.T) {
	r := vlib.Open(prop)
	dir, err := os.MkdirTemp("", "c05file")
	if err != nil {
		t.Fatal(err)
	}
	defer os.RemoveAll(dir)
	var fc fileCase
	if vlib.ReplayCase("TestFileChannelRoundTrip", &fc) {
		if _, err := checkFileChannel(dir, []fileCase{fc}); err != nil {
			r.Violation(t, "TestFileChannelRoundTrip", fc, err.Error())
		}
		return
	}
	r.Rule("file channel round trip: 1..6 events with generated payloads through the real file channel, one batch of channel instances per flush interval; non-trivial = some payload has a non-printable byte")
	batches := r.Pick(2, 10)
	per := r.Pick(60, 150)
	bi := 0
	r.Rapid(t, "TestFileChannelRoundTrip", batches, func(rt *rapid.T) {
		bi++
		var cases []fileCase
		for i := 0; i < per; i++ {
			n := rapid.IntRange(1, 6).Draw(rt, "n")
			var c fileCase
			nt := false
			for j := 0; j < n; j++ {
				b := rapid.SliceOfN(rapid.Byte(), 0, 200).Draw(rt, "p")
				nt = nt || nonPrintable(b)
				c.Payloads = append(c.Payloads, hex.EncodeToString(b))
			}
			fp := ""
			if nt {
				fp = vlib.JSON(c)
			}
			r.Case("filechannel/roundtrip", fp, func() interface{} { return c })
			cases = append(cases, c)
		}
		sub, _ := os.MkdirTemp(dir, "b")
		idx, err := checkFileChannel(sub, cases)
		os.RemoveAll(sub)
		if err != nil {
			if idx < 0 {
				rt.Fatalf("%v", err)
			}
			r.Fail(rt, "TestFileChannelRoundTrip", cases[idx], "%v", err)
		}
	})
}
